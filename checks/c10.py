"""C10 conditional inclusion and #include resolution select exactly the right text.

Part A  explicit-state model of the conditional machine (models/c10_model.py: state = stack of (ctx, taken, active),
        X defined?, previous line ended in an empty expansion?).  (1) breadth-first closure of the model graph for
        nesting <= 3 and a transition cover: every state (shortest trace) x every run of k enabled symbols x a
        distinguishing suffix; (2) EVERY well-nested directive sequence of length <= n over the alphabet
        {#if 0|1|defined X|X|!X, #ifdef X, #ifndef X, #elif c, #else, #endif, #define X 1, #undef X} (+ a trailing junk
        token on #ifdef/#ifndef/#else/#endif/#undef), (3) the same with a text line ending in an empty macro, (4) the
        same with lines that are valid only where 6.10.1p6 says they are not looked at (#error, #include of a missing
        file, unknown directive, malformed #define/#line, `#if 1 +` in a skipped group, `#elif 1 / 0` after a taken
        group).  Every sequence is rendered with a probe line after every directive and replayed from the start
        through `chibicc -cc1 -E`; the surviving probe ids must equal the model's.  Sequences share a process (batch of
        400, separated by marker lines); every deviating one is re-run alone (a difference chained/alone is a violation).
        (5) the same with LINES WITHOUT EFFECT, rendered without a probe line so that the next directive follows them
        directly: the null directive `#`, `# /* c */`, `#<tab>// c`, `#pragma c10 p`, `#define Y #else`,
        `#define W # endif`, `#define Z 1 \<newline>#endif` (spliced), `#undef V`, `#line 77`, and text lines with a
        non-initial '#' (`P7 # else|endif|if 1`), in active and in skipped groups at every nesting depth <= 3;
        (6) a pair cover: every model state x every line of (5) x every directive enabled directly after it x suffix.
        A rejected unit is re-run with all lines of one class removed to name the responsible class (`because-of=`).
        quick: n<=5 (2), n<=3 (3), n<=4 (4), n<=4 (5), k=1; thorough adds n<=6 without junk variants, n<=4 (3),
        n<=5 (4), n<=5 (5) with one line per class, k<=2.
Part B  #if arithmetic: expression trees over 42 atoms (int/unsigned/long-typed spellings, limits, character constants,
        defined, unknown identifiers, macros) x 18 binary / 4 unary operators, depth 2 over a 6 (thorough: 11) atom
        subset, ?: ; three probes each (truth, value, signedness); model = 6.10.1p4 intmax_t/uintmax_t arithmetic,
        undefined / implementation-defined results are not judged.
Part C  include resolution: one header name in every subset of {includer's dir, -I d1, -I d2, system dir, -idirafter
        d3} (+ the compiler's cwd, which is on no path) x form {"h", <h>, macro-expanded, trailing junk} x every copy
        chaining on with #include_next <h>/"h" x option orders x `-Idir`/`-I dir` x second inclusion and intervening
        lookups of another header (cache / stale-index paths).  Units the model calls invalid must be rejected.
Part C2 several includers: c10m.h in every non-empty subset of {src, src/la, src/lb, d1, d2} (la, lb on no search path;
        -Id1 -Id2, thorough also -Id2 -Id1 where both hold a copy); the SAME spelling is named by the primary file, by
        src/la/i?.h, src/lb/i?.h, d1/i?.h and (nested) src/la/n?.h -> ../lb/i?.h, with the quote and the angle form: every inclusion script of
        <= 2 steps over these 10 steps + every script of 3 quote-form steps from {primary, la, lb, d1} (thorough: every
        script of <= 3 steps).  Each lookup must depend on (spelling, form, directory of the file containing the
        directive) only - never on earlier lookups; units with an unresolvable step must be rejected.
Part C3 directives that change the PRESUMED position before an inclusion (6.10.4: #line changes the presumed line number
        and file NAME only; the FILE a later #include / #pragma once refers to is that of the real file).  Step = (file
        holding the directive: primary gen/main.c | nested header on no search path | nested header found through -I) x
        presumption line {none, #line 7 "src/y.y" (directory exists, may hold a same-named header), "nowhere/y.y" (no
        such directory), "y.y" (bare: the compiler's cwd), absolute, `# 7 "src/y.y"` / `# 7 "nowhere/y.y"` line markers,
        #line MACRO, #line 7 "d1/c10p.h" (an existing header), #line 7} x {#include "", <>, #include_next "", <>}: 80
        steps; EVERY script of <= 2 steps (a #line in the primary file stays in force) x c10p.h in 6 (thorough: all 64)
        subsets of {primary's dir, nested includer's dir, dir named by #line, -I dirs, compiler's cwd} (+ always in the
        last -I directory, so a wrong lookup shows as a wrong file) x 2 configurations (cwd = tree root | sibling
        directory, every path through `../`): 77 760 cases quick, 829 440 thorough, batched 150 per process, deviating
        cases re-run alone and once more without any #line (control).  Second family: a header with [#line / marker
        naming the sibling header's path exactly as the compiler spells it | bare | absolute | `./`-prefixed | elsewhere]
        before or after its #pragma once / in front of its guard x every script of <= 4 inclusions over the two headers.
Part D  re-inclusion shortcuts: 1752 file shapes over {leading text, #ifndef G | #if !defined G | #if !defined(G),
        #define G | none | other, nested conditionals in the body, the guard's own #else/#elif, trailing text /
        second conditional, #pragma once at top / inside / end} x 24 include scripts (2-3 inclusions, G kept /
        #undef'd between / pre-defined, same / "./" / <> spelling): output = plain textual inclusion (+ #pragma once).
Part D2 re-inclusion shortcuts x PATH SPELLING (which file a #pragma once / a detected guard belongs to).  A project
        tree with one header basename in 7 directories (a different copy in each; w/ w/r w/r/s w/r/s/t w/r/o w/r/o/q
        w/r/o/t) and symbolic links (s/lk -> ../o/q so that lk/.. is NOT s; s/t/up -> ../..; ln.h -> c.h file links).
        Reference = quote form (relative to the primary file's directory) | angle form (relative to the project root,
        the only -I directory, named relative to the compiler's cwd) x EVERY spelling of <= 3 (angle 2; thorough 4,
        angle 3) components over {., .., empty (`//`, quote form only), r, s, t, o, q, lk, up} + {c.h, ln.h} that names an
        existing file + 3 absolute paths: 107 / 127 quote-form references from w/r/s/t / w/r at <= 3 components (458 /
        540 at <= 4), 23 / 80 / 266 angle-form ones at <= 2 / 3 / 4; 10 500 / 13 284 ordered pairs per (kind,
        configuration) quick, 89 752 / 117 244 scripts thorough (174 204 cases quick, 4.1 M thorough).
        Case = ordered pair of references with one member of <= 2 components (thorough: also every pair <= 3 and every
        triple of quote-form references <= 2) x header kind {#pragma once, own guard, nothing; thorough + both, guard
        #undef'd between} x configuration (compiler cwd = project root | source directory two levels down | sibling |
        above the root | inside a symlinked directory; primary file named bare, relative with leading `..`, `./`,
        absolute; -I as `.`, `../..`, `../../`, `../r`, `./../..`, absolute): 5 configurations quick, 10 thorough.
        Files are IDENTIFIED BY WHAT THE SPELLING RESOLVES TO (model VFS with POSIX resolution == kernel realpath ==
        gcc): (b) two different files are NEVER conflated, however alike the spellings look after a textual
        simplification (`../../c.h` vs `c.h`, `lk/../t/c.h` vs `t/c.h`, `./x/../../c.h`, same basename, `./`, `//`) -
        both are included, always judged; (a) the same file through the same reference: #pragma once suppresses;
        through another spelling with #pragma once only: implementation-defined, included once or twice both
        accepted; guarded / unguarded files: plain textual inclusion (same output whichever way the file is recognised).
Part D3 re-inclusion HISTORIES (the shortcut tables are state): EVERY sequence of <= 5 (thorough 6) steps over {#include
        "h.h", #include "./h.h" (other spelling), #include "w.h" (which includes h.h), #undef G, #define G} with at
        least one inclusion (3 843 / 19 404 scripts) x header kind {#ifndef guard, #if !defined() guard, #pragma once,
        both, nothing}; a marker after every step; expected = plain textual inclusion (under #pragma once the same file
        through the other spelling may be included once or again: identity-keyed and spelling-keyed model both accepted).
Part E  every sequence of <= 3 (thorough 4) options from {-DX, -DX=2, -D X=3, -DY=X, -D'F(x)=x+Y', -UX, -U X,
        -include a.h|b.h|g.h|c.h(found via -I)} x position of -I, against the same directives written in a file
        (model, gcc, and chibicc itself on that file).
Part E2 -D / -U over PREDEFINED macro names.  The predefined set is read from the binary under test (candidates: every
        identifier-like string of the executable + gcc -dM names; `#ifdef` probes, twice, to tell dynamic ones).  -DN,
        -DN=7, -UN (joined / separate argument) over EVERY judged predefined name; every sequence of <= 2 (thorough 3)
        requests over one predefined name per class {not reserved (linux), value 1, other integer, non-integer value,
        empty value} + a user name (+ -DU=N).  A body expands each name and tests #ifdef / #if N == 7.  Expected = the
        same #define/#undef lines at the top of the file: model over the probed table + the same binary on that file;
        the model's reading of every option sequence is validated by gcc with gcc's own table (-dM).  Names of 6.10.8
        (__STDC*, __DATE__, __TIME__, __FILE__, __LINE__; #define/#undef of them is undefined) and dynamic macros are
        not judged.  Options and file agreeing with each other but not with the model = HarnessError (probe in doubt).
Oracle everywhere: the Python model AND `gcc -E -P -nostdinc` must agree before chibicc is judged; any disagreement
is a HarnessError (exit 2), never a VIOLATION.  Outputs are compared as re-lexed token streams.
"""
import itertools, os, re, shutil, time
from vlib import core
from models import c10_model as M

LEVEL = "model_checking"
BUDGET = {"quick": 900, "thorough": 5400}      # global deadlines, not targets: ~9-12 CPU-min / ~60 CPU-min of work

TOK = re.compile(r"[A-Za-z_][A-Za-z0-9_]*|\d+|\S")
# `# 12 "file"` / `#line 12` lines are not tokens of the program: a chibicc that starts to emit them stays comparable
LINEMARK = re.compile(r'^[ \t]*#[ \t]*(line[ \t]+)?\d+([ \t]+"[^"\n]*"[ \t\d]*)?[ \t]*$', re.M)
# `#pragma ...` lines: gcc -E passes them through, chibicc drops them; neither is "text selected" by the property
PRAGMALINE = re.compile(r'^[ \t]*#[ \t]*pragma\b[^\n]*$', re.M)
CMP = "python3 $VERIF/harness/c10_cmp.py got.txt expected.txt || exit 1"
GCC = ["gcc", "-E", "-P", "-w", "-nostdinc"]


def lex(s):
    return TOK.findall(LINEMARK.sub("", PRAGMALINE.sub("", s)))


def cc_E(chibicc, src, opts=(), cwd=None, limits=False):
    return core.run_limited([chibicc, "-cc1", "-E"] + list(opts) + ["-cc1-input", src, src], cwd=cwd, timeout=20,
                            limits=limits, cpu=4, mem=1 << 30)


def gcc_E(src, opts=(), cwd=None):
    return core.run_limited(GCC + list(opts) + [src], cwd=cwd, timeout=20)


def segments(out, n):
    """Split a token stream at the separators S0 .. Sn (Sn terminates the last case). -> list of n token lists, or
    None entries where a case's separators are not both present in the right order."""
    toks = lex(out)
    pos = {}
    for i, t in enumerate(toks):
        if t[0] == "S" and t[1:].isdigit() and t not in pos:
            pos[t] = i
    res = []
    for k in range(n):
        a, b = pos.get("S%d" % k), pos.get("S%d" % (k + 1))
        if a is None or b is None or b < a:
            res.append(None)
        else:
            res.append(toks[a + 1:b])
    return res


def run_batch(runner, wd, texts, opts=(), name="b.c", prolog=""):
    """Run many independent cases in one process; bisect when the process fails or separators are lost.
    -> list of (status, tokens|None, stderr-tail) per case; status 0 = ok."""
    n = len(texts)
    src = os.path.join(wd, name)
    with open(src, "w") as f:
        f.write(prolog)
        for k, t in enumerate(texts):
            f.write("S%d\n" % k)
            f.write(t)
        f.write("S%d\n" % n)
    st, out, err = runner(src, opts, wd)
    if st == 0:
        seg = segments(out, n)
        if all(s is not None for s in seg):
            return [(0, s, "") for s in seg]
    if n == 1:
        seg = segments(out, 1) if st == 0 else [None]
        return [(st if st != 0 else "garbled", seg[0], err[-300:])]
    h = n // 2
    return run_batch(runner, wd, texts[:h], opts, name, prolog) + run_batch(runner, wd, texts[h:], opts, name, prolog)


# =====================================================================================================
# Part A
# =====================================================================================================
A_PROLOG = "#define E\n"
A_BATCH = 400
CONFIRM = 8


def a_special(s):
    """Class name of a line that is not part of the conditional skeleton (removing it keeps the unit well-nested)."""
    return {"inert": s[-1], "htext": "text-line-with-#", "te": "line-ending-in-empty-expansion",
            "dead": "line-valid-only-when-skipped"}.get(s[0])


def a_classify(seq, exp, st, got, because=()):
    """Deviation class of one case (run alone).  because: classes of lines whose removal makes a rejected unit
    acceptable (found by a_task; only names the class, never decides the verdict)."""
    if st != 0:
        if isinstance(st, int) and st < 0:
            return "crash"
        if because:
            return "rejected|because-of=" + "+".join(because)
        # descriptive only: which special line kinds the rejected (valid) unit contains
        has = [n for n, k in (("line-ending-in-empty-expansion", "te"), ("line-valid-only-when-skipped", "dead"),
                              ("line-without-effect", "inert"), ("text-line-with-#", "htext")) if
               any(s[0] == k or (k == "dead" and s[0] in ("if", "elif") and s[1] not in M.CONDS) for s in seq)]
        return "rejected" + ("|unit-has-" + "+".join(has) if has else "")
    if got.count("#") > exp.count("#"):
        return "directive-printed-as-text"
    junk = [t for t in got if t[0] == "J"]
    rest = [t for t in got if t[0] != "J"]
    if rest == exp and junk:
        kinds = sorted({"#" + seq[int(t[1:])][0] for t in junk if t[1:].isdigit() and int(t[1:]) < len(seq)})
        return "&".join("trailing-tokens-emitted|after=" + k for k in kinds)
    extra = [t for t in rest if t not in exp]
    missing = [t for t in exp if t not in rest]
    gov = ""
    first = (extra + missing)[0] if (extra or missing) else None
    if first and first[1:].isdigit() and int(first[1:]) < len(seq):
        j = int(first[1:])
        gov = "|under=" + ("text-line-with-#" if seq[j][0] == "htext" else "#" + seq[j][0])
        # a line without effect (it has no probe of its own) standing directly before the governing directive
        if j > 0 and seq[j - 1][0] == "inert":
            gov += "|directly-after=" + seq[j - 1][2]
    if extra and not missing:
        return "skipped-group-processed" + gov
    if missing and not extra:
        return "selected-group-skipped" + gov
    if extra or missing:
        return "wrong-groups" + gov
    return "token-order"


def a_task(args):
    chibicc, wd, prefixes, n, maxdepth, syms, need, explicit, deadline = args
    os.makedirs(wd, exist_ok=True)
    res = {"traces": 0, "runs": 0, "judged": 0, "disagree": 0, "nonempty": 0, "viol": {}, "trans": set(),
           "states": set(), "disagree_ex": None, "chain_diff": 0, "cut": 0}

    confirmed = {}

    def cc(src, opts, cwd):
        res["runs"] += 1
        return cc_E(chibicc, src, opts, cwd)

    def flush(batch):
        if not batch:
            return
        texts = [b[1] for b in batch]
        r_c = run_batch(cc, wd, texts, prolog=A_PROLOG)
        r_g = run_batch(lambda s, o, c: gcc_E(s, o, c), wd, texts, prolog=A_PROLOG)
        for (seq, txt, exp), (sc, tc, ec), (sg, tg, eg) in zip(batch, r_c, r_g):
            res["traces"] += 1
            if sg != 0 or tg != exp:
                res["disagree"] += 1
                if res["disagree_ex"] is None:
                    res["disagree_ex"] = (txt, exp, tg, eg)
                continue
            res["judged"] += 1
            if exp:
                res["nonempty"] += 1
            if sc == 0 and tc == exp:
                continue
            # deviating in the batch: re-run alone (history = state, from the start).  After CONFIRM alone-confirmed
            # cases of one class in this shard the batch verdict is counted without another process.
            pre = a_classify(seq, exp, sc, tc or []) if sc == 0 else None
            if pre is not None and confirmed.get(pre, 0) >= CONFIRM:
                for cls in pre.split("&"):
                    res["viol"][cls][0] += 1
                continue
            (sa, ta, ea), = run_batch(cc, wd, [txt], prolog=A_PROLOG, name="alone.c")
            if sa == 0 and ta == exp:
                res["chain_diff"] += 1
                cls_all = "chained-differs-from-alone"
                ta = tc
            else:
                because = []
                if sa != 0:
                    # name the class of line responsible: drop all lines of one class, see whether the unit is accepted
                    for c in sorted({a_special(x) for x in seq if a_special(x)}):
                        seq2 = [x for x in seq if a_special(x) != c]
                        if seq2:
                            (s2, t2, e2), = run_batch(cc, wd, [M.render_case(seq2)[0]], prolog=A_PROLOG, name="alone.c")
                            if s2 == 0:
                                because.append(c)
                cls_all = a_classify(seq, exp, sa, ta or [], because)
                if cls_all == pre:
                    confirmed[pre] = confirmed.get(pre, 0) + 1
            for cls in cls_all.split("&"):
                v = res["viol"].setdefault(cls, [0, None])
                v[0] += 1
                if v[1] is None or len(txt) < len(v[1][0]):
                    v[1] = (txt, exp, ta, str(sa), ea)

    def all_seqs():
        if explicit is not None:
            yield from explicit
        for pre in prefixes:
            yield from M.enumerate_sequences(pre, n, maxdepth, syms, need=need)

    batch = []
    if True:
        for seq in all_seqs():
            exp, nclose, trans = M.run_sequence(seq)
            for t in trans:
                res["trans"].add(t)
                res["states"].add(t[0])
            txt = "#undef X\n" + "".join(M.render(s, i) for i, s in enumerate(seq)) + "#endif\n" * nclose
            batch.append((seq, txt, exp))
            if len(batch) >= A_BATCH:
                flush(batch)
                batch = []
                if time.time() > deadline:
                    res["cut"] = 1
                    break
    flush(batch)
    return res


A_REPLAY = "$CHIBICC -cc1 -E -cc1-input case.c case.c > got.txt 2> err.txt || exit 1\n" + CMP + "\nexit 0"


def part_a(ctx, n, n_nojunk, n_te, n_dead, cover_k, n_inert, n_inert_small, maxdepth=3):
    noeffect = M.INERT + M.HTEXT
    everything = M.symbols(True) + M.SKIPPED_ONLY + noeffect
    total_states, total_trans = M.model_graph(maxdepth, everything)
    # the two models (state machine / textual interpreter) are independent implementations: they must agree
    nself = 0
    for seq in M.enumerate_sequences((), 3, maxdepth, everything):
        txt, exp = M.render_case(seq)
        if M.Cpp({"/m.c": A_PROLOG + txt}, []).run("/m.c") != exp:
            raise core.HarnessError("models/c10_model.py: CondMachine and Cpp disagree on\n" + txt)
        nself += 1
    ctx.cover(a_model_selfcheck_sequences=nself)
    agg = {"traces": 0, "runs": 0, "judged": 0, "disagree": 0, "nonempty": 0, "chain_diff": 0}
    trans, states = set(), set()
    done = []
    plan = [("cover", everything, None, cover_k), ("full-alphabet-without-te", M.symbols(False), None, n),
            ("with-te", M.symbols(True), {("te",)}, n_te),
            ("with-lines-valid-only-when-skipped", M.symbols_dead(), set(M.SKIPPED_ONLY), n_dead),
            # every state x every line without effect x every enabled directive DIRECTLY after it x suffix
            ("pair-cover-line-without-effect-then-directive", everything, None, 1),
            ("with-lines-without-effect", M.symbols_inert(), set(noeffect), n_inert)]
    if n_inert_small > n_inert:
        small = [M.INERT[0], M.INERT[3], M.INERT[4], M.HTEXT[0]]    # one line of each class
        plan.append(("with-lines-without-effect-one-per-class", M.symbols(False, junk=False) + small, set(small),
                     n_inert_small))
    if n_nojunk > n:
        plan.append(("no-junk-no-te", M.symbols(False, junk=False), None, n_nojunk))
    for label, syms, need, nn in plan:
        if ctx.out_of_time(reserve=20):
            ctx.incomplete("part A: stopped before sub-enumeration %s; finished: %s" % (label, done))
            break
        ntask = core.NPROC * 4
        dl = ctx.deadline - 12
        if label.startswith("pair-cover"):
            seqs = list(M.pair_cover(maxdepth, syms, noeffect, [x for x in M.symbols(True, junk=False)
                                                                if x[0] not in ("define", "undef", "te")]))
            tasks = [(ctx.chibicc, os.path.join(ctx.work, "a_pair_%d" % i), [], 0, maxdepth, syms, None,
                      seqs[i::ntask], dl) for i in range(ntask) if seqs[i::ntask]]
        elif label == "cover":
            # transition cover of the whole model closure (nesting <= maxdepth, any trace length)
            seqs = [s for k in range(1, nn + 1) for s in M.transition_cover(maxdepth, syms, k)]
            tasks = [(ctx.chibicc, os.path.join(ctx.work, "a_cover_%d" % i), [], 0, maxdepth, syms, None,
                      seqs[i::ntask], dl) for i in range(ntask) if seqs[i::ntask]]
        else:
            plen = min(2, nn)
            shorter = [s for s in M.enumerate_sequences((), plen - 1, maxdepth, syms)] if plen > 1 else []
            prefixes = [s for s in M.enumerate_sequences((), plen, maxdepth, syms) if len(s) == plen]
            # shard: round-robin prefixes over tasks (VERIF_SEED rotates the assignment only)
            rot = ctx.seed % max(1, len(prefixes))
            prefixes = prefixes[rot:] + prefixes[:rot]
            tasks = [(ctx.chibicc, os.path.join(ctx.work, "a_%s_%d" % (label, i)), prefixes[i::ntask], nn, maxdepth,
                      syms, need, None, dl) for i in range(ntask) if prefixes[i::ntask]]
            # the sequences shorter than the prefix length
            short = [s for s in shorter if (not need or any(x in need for x in s))]
            if short:
                tasks.append((ctx.chibicc, os.path.join(ctx.work, "a_%s_short" % label), [], 0, maxdepth, syms,
                              need, short, dl))
        results = core.pmap(a_task, tasks)
        if any(r["cut"] for r in results):
            ctx.incomplete("part A: deadline reached inside sub-enumeration %s (%d sequences replayed); finished: %s"
                           % (label, sum(r["traces"] for r in results), done))
        for r in results:
            for k in agg:
                agg[k] += r[k]
            trans |= r["trans"]
            states |= r["states"]
            if r["disagree_ex"]:
                txt, exp, tg, eg = r["disagree_ex"]
                raise core.HarnessError("part A: model and gcc disagree on\n%s\nmodel=%s gcc=%s %s" % (txt, exp, tg, eg))
            for cls, (cnt, ex) in sorted(r["viol"].items()):
                txt, exp, got, st, err = ex
                ctx.violation("C10|cond|" + cls,
                              "conditional machine: %s; expected tokens %s, got %s (status %s) for:\n%s"
                              % (cls, exp, got, st, txt),
                              files={"case.c": A_PROLOG + txt, "expected.txt": " ".join(exp) + "\n",
                                     "observed.txt": "status=%s\n%s\n%s\n" % (st, " ".join(got or []), err)},
                              replay=A_REPLAY)
                for _ in range(cnt - 1):
                    ctx.violation("C10|cond|" + cls, "")
        if not any(r["cut"] for r in results):
            done.append("%s %s%d" % (label, "k<=" if "cover" in label else "n<=", nn))
        if label == "cover" and (len(states) != total_states or len(trans) != total_trans):
            raise core.HarnessError("transition cover incomplete: %d/%d states %d/%d transitions"
                                    % (len(states), total_states, len(trans), total_trans))
    if agg["judged"] == 0 or agg["nonempty"] == 0:
        raise core.HarnessError("part A vacuous: %s" % agg)
    ctx.cover(states=len(states), transitions=len(trans), model_states_closure=total_states,
              model_transitions_closure=total_trans, traces_validated_against_impl=agg["judged"],
              a_sequences=agg["traces"], a_process_runs=agg["runs"], a_oracle_disagreements=agg["disagree"],
              a_chained_vs_alone_differences=agg["chain_diff"], a_bounds=done,
              a_lines_without_effect=[x[1] for x in M.INERT] + ["P # " + x[1] for x in M.HTEXT],
              a_rule="lines without effect (null directive, null directive + comment, #pragma, #define whose body "
                     "looks like a directive incl. a spliced one, #undef/#line of something unrelated) are rendered "
                     "WITHOUT a probe line so that the next directive follows them directly; they and text lines "
                     "with a non-initial '#' appear in active and skipped groups at every nesting depth <= %d" % maxdepth)
    ex = (("if", "X"), ("define",), ("elif", "defined X"), ("else", 1), ("te",))
    ctx.sample({"part": "A", "sequence": [list(s) for s in ex], "rendering": M.render_case(ex)[0],
                "expected": M.render_case(ex)[1]})


# =====================================================================================================
# Part B: #if arithmetic
# =====================================================================================================
B_PROLOG = "#define D 1\n#define M1 (-1)\n#define MU 0u\n"
B_BATCH = 300


def L(text, v, u=False):
    return ("lit", text, v, u)


def NEG(e):
    return ("un", "-", e)


# (tree, class): class = how ordinary C (outside #if) would type the spelling - the root causes live there
ATOMS = [
    (L("0", 0), "i32"), (L("1", 1), "i32"), (NEG(L("1", 1)), "i32"), (L("2", 2), "i32"), (L("3", 3), "i32"),
    (L("31", 31), "i32"), (L("32", 32), "i32"), (L("63", 63), "i32"), (L("64", 64), "i32"),
    (L("0u", 0, True), "u32"), (L("1u", 1, True), "u32"), (L("2U", 2, True), "u32"),
    (L("2147483647", 2**31 - 1), "i32"), (NEG(L("2147483647", 2**31 - 1)), "i32"),
    (L("0x7fffffff", 2**31 - 1), "i32"), (L("0x80000000", 2**31), "u32"), (L("0xffffffff", 2**32 - 1), "u32"),
    (L("2147483648", 2**31), "i64"), (NEG(L("2147483648", 2**31)), "i64"), (L("4294967296", 2**32), "i64"),
    (L("1L", 1), "i64"), (NEG(L("1LL", 1)), "i64"), (L("1UL", 1, True), "u64"), (L("3ull", 3, True), "u64"),
    (L("9223372036854775807", 2**63 - 1), "i64"), (NEG(L("9223372036854775807", 2**63 - 1)), "i64"),
    (L("0x7fffffffffffffff", 2**63 - 1), "i64"), (L("0x8000000000000000", 2**63, True), "u64"),
    (L("0xffffffffffffffff", 2**64 - 1, True), "u64"), (L("18446744073709551615u", 2**64 - 1, True), "u64"),
    (L("'a'", 97), "char"), (L("'\\0'", 0), "char"), (L("'\\n'", 10), "char"),
    (L("'\\377'", None), "char"),          # implementation-defined value: never judged
    (L("defined D", 1), "defined"), (L("defined(U)", 0), "defined"), (L("defined ( D )", 1), "defined"),
    (L("UNKNOWN", 0), "ident"), (L("true", 0), "ident"), (L("int", 0), "ident"),
    (L("M1", -1), "i32"), (L("MU", 0, True), "u32"),
]
SMALL = ["0", "1", "- 1", "0u", "0xffffffff", "2"]
MEDIUM = SMALL + ["0x80000000", "- 2147483648", "0xffffffffffffffff", "63", "UNKNOWN"]
BINOPS = ["+", "-", "*", "/", "%", "<<", ">>", "<", ">", "<=", ">=", "==", "!=", "&", "|", "^", "&&", "||"]
UNOPS = ["-", "~", "!", "+"]
OPNAME = {"+": "add", "-": "sub", "*": "mul", "/": "div", "%": "mod", "<<": "shl", ">>": "shr", "<": "lt", ">": "gt",
          "<=": "le", ">=": "ge", "==": "eq", "!=": "ne", "&": "and", "|": "or", "^": "xor", "&&": "land", "||": "lor",
          "~": "not", "!": "lnot"}
_CLS = {}


def atom_key(e):
    return M.etext(e).replace("(", "").replace(")", "")


def shape(e):
    k = e[0]
    if k == "lit":
        return _CLS.get(e[1], "lit")
    if k == "un":
        if e[2][0] == "lit" and e[1] == "-" and ("- " + e[2][1]) in _CLS:
            return _CLS["- " + e[2][1]]
        return "%s(%s)" % ({"-": "neg", "+": "pos"}.get(e[1], OPNAME.get(e[1])), shape(e[2]))
    if k == "bin":
        return "%s(%s,%s)" % (OPNAME[e[1]], shape(e[2]), shape(e[3]))
    return "cond(%s,%s,%s)" % (shape(e[1]), shape(e[2]), shape(e[3]))


def leafset(e):
    """Signature class of an expression: the set of operand spellings' classes (how ordinary C would type them) -
    the root causes live in the typing of the operands, not in the operator tree."""
    out = set()

    def walk(x):
        if x[0] == "lit":
            out.add(_CLS.get(x[1], "lit"))
        elif x[0] == "un" and x[1] == "-" and x[2][0] == "lit" and ("- " + x[2][1]) in _CLS:
            out.add(_CLS["- " + x[2][1]])
        else:
            for y in x[1:]:
                if isinstance(y, tuple):
                    walk(y)
    walk(e)
    return "operands=" + "+".join(sorted(out))


def b_exprs(tier):
    atoms = [a for a, c in ATOMS]
    for a, c in ATOMS:
        _CLS[atom_key(a)] = c
        if a[0] == "lit":
            _CLS[a[1]] = c
    byname = {atom_key(a): a for a in atoms}
    out = []
    out += atoms
    out += [("un", op, a) for op in UNOPS for a in atoms]
    out += [("bin", op, a, b) for op in BINOPS for a in atoms for b in atoms]
    s2 = [byname[x] for x in (SMALL if tier == "quick" else MEDIUM)]
    s1 = [byname[x] for x in SMALL]
    for op2 in BINOPS:
        for op1 in BINOPS:
            for a in s2:
                for b in s2:
                    inner = ("bin", op1, a, b)
                    for c in s2:
                        out.append(("bin", op2, inner, c))
                        out.append(("bin", op2, c, inner))
    out += [("un", op, ("bin", op1, a, b)) for op in UNOPS for op1 in BINOPS for a in s2 for b in s2]
    m = [byname[x] for x in MEDIUM]
    out += [("cond", c, a, b) for c in m for a in m for b in m]
    out += [("bin", op, ("cond", c, a, b), d) for op in ("<", "+", ">>", "/") for c in s1[:3] for a in s1 for b in s1
            for d in s1]
    return out


def b_render(e, v, u):
    t = M.etext(e)
    exp = ["T" if v != 0 else "F", "V"] + ([] if u else ["G"])
    txt = ("#if %s\nT\n#else\nF\n#endif\n#if (%s) == %s\nV\n#endif\n#if (0*(%s) - 1) < 0\nG\n#endif\n"
           % (t, t, M.lit_for(v, u), t))
    return txt, exp


def b_classify(exp, st, got):
    if st != 0:
        return "crash" if isinstance(st, int) and st < 0 else "rejected"
    got = got or []
    bad = []
    if ("T" in got) != ("T" in exp) or ("F" in got) != ("F" in exp):
        bad.append("truth")
    if ("V" in got) != ("V" in exp):
        bad.append("value")
    if ("G" in got) != ("G" in exp):
        bad.append("signedness")
    return "wrong-" + "+".join(bad) if bad else "garbled"


def b_task(args):
    chibicc, wd, exprs, deadline = args
    os.makedirs(wd, exist_ok=True)
    res = {"n": 0, "undef": 0, "disagree": 0, "ref_rejected": 0, "judged": 0, "viol": {}, "outcomes": set(),
           "disagree_ex": None, "cut": 0}
    confirmed = {}
    cases = []
    for e in exprs:
        res["n"] += 1
        try:
            v, u = M.ev(e)
        except M.Undef:
            res["undef"] += 1
            continue
        txt, exp = b_render(e, v, u)
        cases.append((e, txt, exp))
    for batch in core.chunks(cases, B_BATCH):
        if time.time() > deadline:
            res["cut"] = 1
            break
        texts = [b[1] for b in batch]
        r_c = run_batch(lambda s, o, c: cc_E(chibicc, s, o, c), wd, texts, prolog=B_PROLOG)
        r_g = run_batch(lambda s, o, c: gcc_E(s, o, c), wd, texts, prolog=B_PROLOG)
        for (e, txt, exp), (sc, tc, ec), (sg, tg, eg) in zip(batch, r_c, r_g):
            if sg != 0:
                res["ref_rejected"] += 1
                continue
            if tg != exp:
                res["disagree"] += 1
                if res["disagree_ex"] is None:
                    res["disagree_ex"] = (M.etext(e), exp, tg)
                continue
            res["judged"] += 1
            res["outcomes"].add(tuple(exp))
            if sc == 0 and tc == exp:
                continue
            pre = leafset(e) + "|" + b_classify(exp, sc, tc) if sc == 0 else None
            if pre is not None and confirmed.get(pre, 0) >= 2:
                res["viol"][pre][0] += 1
                continue
            (sa, ta, ea), = run_batch(lambda s, o, c: cc_E(chibicc, s, o, c), wd, [txt], prolog=B_PROLOG, name="alone.c")
            if sa == 0 and ta == exp:
                cls = "chained-differs-from-alone"
            else:
                cls = leafset(e) + "|" + b_classify(exp, sa, ta)
                if cls == pre:
                    confirmed[pre] = confirmed.get(pre, 0) + 1
            v = res["viol"].setdefault(cls, [0, None])
            v[0] += 1
            if v[1] is None or len(txt) < len(v[1][0]):
                v[1] = (txt, exp, ta, str(sa), ea, M.etext(e))
    return res


B_REPLAY = A_REPLAY


def part_b(ctx):
    exprs = b_exprs(ctx.tier)
    ntask = core.NPROC * 4
    tasks = [(ctx.chibicc, os.path.join(ctx.work, "b_%d" % i), exprs[i::ntask], ctx.deadline - 12) for i in range(ntask)]
    agg = {"n": 0, "undef": 0, "disagree": 0, "ref_rejected": 0, "judged": 0}
    outcomes = set()
    dis = None
    for r in core.pmap(b_task, tasks):
        for k in agg:
            agg[k] += r[k]
        if r["cut"] and ctx.exhaustive:
            ctx.incomplete("part B: deadline reached; expressions judged so far are reported")
        outcomes |= r["outcomes"]
        dis = dis or r["disagree_ex"]
        for cls, (cnt, ex) in sorted(r["viol"].items()):
            txt, exp, got, st, err, et = ex
            ctx.violation("C10|if-arith|" + cls,
                          "#if %s: expected probes %s (T/F truth, V value, G signed), got %s (status %s)" % (et, exp, got, st),
                          files={"case.c": B_PROLOG + "S0\n" + txt + "S1\n", "expected.txt": "S0 " + " ".join(exp) + " S1\n",
                                 "observed.txt": "status=%s\n%s\n%s\n" % (st, " ".join(got or []), err)},
                          replay=B_REPLAY)
            for _ in range(cnt - 1):
                ctx.violation("C10|if-arith|" + cls, "")
    if dis:
        raise core.HarnessError("part B: model and gcc disagree on #if %s: model %s gcc %s" % dis)
    if agg["judged"] < 1000 or len(outcomes) < 4:
        raise core.HarnessError("part B vacuous: %s outcomes=%s" % (agg, outcomes))
    ctx.cover(b_expressions=agg["n"], b_judged=agg["judged"], skipped_undefined=agg["undef"],
              oracle_disagreements=agg["disagree"], ref_rejected=agg["ref_rejected"], b_distinct_outcomes=len(outcomes))
    e = ("bin", "<", ("bin", "+", NEG(L("1", 1)), L("0", 0)), L("0u", 0, True))
    ctx.sample({"part": "B", "expr": M.etext(e), "model": list(M.ev(e)), "rendering": b_render(e, *M.ev(e))[0]})


# =====================================================================================================
# Part C: include resolution
# =====================================================================================================
LOCS = ["cur", "d1", "d2", "sys", "d3"]
LOCDIR = {"cur": "src", "d1": "d1", "d2": "d2", "sys": "sysroot/include", "d3": "d3", "cwd": "."}
# "cwd": the directory the compiler runs in - on no search path (the including file lives in src/), never to be found
C_INNER = ["none", "next<>", 'next""', "g+next<>"]
C_MAIN = ["one", "twice", "g-then-one", "one-g-one"]
C_FORMS = ['"c10h.h"', "<c10h.h>", "HQ", "HA", '"c10h.h" JUNK', "<c10h.h> JUNK"]


def c_header(loc, inner_line):
    return ("#ifdef IN_%s\nR_%s\n#else\n#define IN_%s\nB_%s\n%sE_%s\n#undef IN_%s\n#endif\n"
            % (loc, loc, loc, loc, inner_line, loc, loc))


def c_files(subset, inner, chain_locs, gpos):
    """-> {relative path: text} of all headers for one tree. A copy chains on with #include_next only when the model
    finds a later copy (a failing #include_next would make the unit invalid)."""
    files = {}
    for loc in subset:
        line = ""
        if inner != "none":
            later = chain_locs if loc in ("cur", "cwd") else chain_locs[chain_locs.index(loc) + 1:]
            if any(l in subset for l in later):
                line = "#include_next %s\n" % ("<c10h.h>" if "<>" in inner else '"c10h.h"')
                if inner.startswith("g+") and gpos:
                    line = "#include <c10g.h>\n" + line
        files[LOCDIR[loc] + "/c10h.h"] = c_header(loc, line)
    if gpos:
        files[LOCDIR[gpos] + "/c10g.h"] = "G_%s\n" % gpos
    return files


def c_main(shape, form):
    inc = "#include %s\n" % form
    g = "#include <c10g.h>\n"
    body = {"one": inc, "twice": inc + "M1\n" + inc, "g-then-one": g + "M1\n" + inc,
            "one-g-one": inc + "M1\n" + g + "M2\n" + inc}[shape]
    return '#define HQ "c10h.h"\n#define HA <c10h.h>\nM0\n' + body + "M9\n"


def c_cases(tier):
    """(subset, inner, iorder, gpos, main shape, form, idirafter first?, separate -I arg?)"""
    subsets = [tuple(l for i, l in enumerate(LOCS) if m >> i & 1) for m in range(1, 32)]
    subsets += [("cwd",), ("cur", "cwd"), ("d2", "cwd"), ("d3", "cwd")]
    full = tier != "quick"
    for sub in subsets:
        for inner in C_INNER:
            if "cwd" in sub and inner != "none":
                continue
            for iorder in (("d1", "d2"), ("d2", "d1")):
                for gpos in ((None, "d1", "d2", "d3") if full else (None, "d2")):
                    if inner.startswith("g+") and not gpos:
                        continue
                    for shape in C_MAIN:
                        uses_g = shape in ("g-then-one", "one-g-one")
                        if uses_g and not gpos:
                            continue
                        if gpos and not uses_g and not inner.startswith("g+"):
                            continue
                        for form in C_FORMS:
                            if form not in C_FORMS[:2] and not (full or shape == "one"):
                                continue
                            for after_first in (False, True):
                                for sep in ((False, True) if (full or shape == "one") else (False,)):
                                    yield (sub, inner, iorder, gpos, shape, form, after_first, sep)


def c_options(iorder, after_first, sep, for_gcc):
    o = []
    for d in iorder:
        o += ["-I", d] if sep else ["-I" + d]
    a = ["-idirafter", "d3"]
    o = a + o if after_first else o + a
    if for_gcc:
        o += ["-isystem", "sysroot/include"]
    return o


def c_dirclass(path, chain_locs):
    for loc, d in LOCDIR.items():
        if loc == "cwd":
            continue
        if path.startswith(d + "/"):
            if loc in ("d1", "d2"):
                return "I%d" % (chain_locs.index(loc) + 1)
            return {"cur": "includer-dir", "sys": "system", "d3": "idirafter"}[loc]
    return "compiler-cwd"


def c_tokclass(t, chain_locs):
    if t is None:
        return "nothing"
    if t[:2] in ("B_", "E_", "G_", "R_"):
        loc = t[2:]
        if loc in LOCDIR:
            k = c_dirclass(LOCDIR[loc] + "/x", chain_locs)
            return {"B_": "", "E_": "end-of-", "G_": "c10g.h-in-", "R_": "re-entered-"}[t[:2]] + k
    return "main-text" if t[0] == "M" else t


def c_task(args):
    chibicc, wd, cases = args
    res = {"n": 0, "judged": 0, "disagree": 0, "ref_rejected": 0, "undef": 0, "viol": {}, "disagree_ex": None,
           "outcomes": set(), "runs": 0, "rejections_expected": 0}
    last_tree = None
    files = {}
    for case in cases:
        sub, inner, iorder, gpos, shape, form, after_first, sep = case
        chain_locs = list(iorder) + ["sys", "d3"]
        tree_key = (sub, inner, iorder, gpos)
        if tree_key != last_tree:
            shutil.rmtree(wd, ignore_errors=True)
            for d in LOCDIR.values():
                os.makedirs(os.path.join(wd, d), exist_ok=True)
            os.symlink(chibicc, os.path.join(wd, "sysroot/chibicc"))
            files = c_files(sub, inner, chain_locs, gpos)
            for rel, txt in files.items():
                with open(os.path.join(wd, rel), "w") as f:
                    f.write(txt)
            last_tree = tree_key
        main = c_main(shape, form)
        with open(os.path.join(wd, "src/main.c"), "w") as f:
            f.write(main)
        res["n"] += 1
        allf = {os.path.normpath("/" + k): v for k, v in files.items()}
        allf["/src/main.c"] = main
        m = M.Cpp(allf, ["/" + LOCDIR[l] for l in chain_locs])
        argv = (["sysroot/chibicc", "-cc1", "-E"] + c_options(iorder, after_first, sep, False)
                + ["-cc1-input", "src/main.c", "src/main.c"])
        sg, og, eg = core.run_limited(GCC + c_options(iorder, after_first, sep, True) + ["src/main.c"], cwd=wd, timeout=20)
        try:
            exp = m.run("/src/main.c")
        except M.Undef:
            res["undef"] += 1
            continue
        except M.Reject:
            # the header is on no search path for this form: the unit is invalid and must be rejected
            if sg == 0:
                res["disagree"] += 1
                res["disagree_ex"] = res["disagree_ex"] or (case, "rejection", lex(og))
                continue
            res["judged"] += 1
            res["rejections_expected"] += 1
            sc, oc, ec = core.run_limited(argv, cwd=wd, timeout=20)
            res["runs"] += 1
            if sc == 0:
                got = lex(oc)
                frm = [c_tokclass(t, chain_locs) for t in got if t[:2] == "B_"]
                sig = "#include%s|want=rejected|got=%s" % ('""' if '"' in form or form == "HQ" else "<>", frm[0] if frm else "accepted")
                v = res["viol"].setdefault(sig, [0, None])
                v[0] += 1
                size = sum(len(t) for t in files.values()) + len(main)
                if v[1] is None or size < v[1][0]:
                    v[1] = (size, dict(files), main, c_options(iorder, after_first, sep, False), ["<rejected>"], got, str(sc), ec[-300:], case)
            continue
        if sg != 0:
            res["ref_rejected"] += 1
            continue
        if lex(og) != exp:
            res["disagree"] += 1
            res["disagree_ex"] = res["disagree_ex"] or (case, exp, lex(og))
            continue
        res["judged"] += 1
        res["outcomes"].add(tuple(exp))
        sc, oc, ec = core.run_limited(argv, cwd=wd, timeout=20)     # headers carry re-entry guards: no unbounded recursion
        res["runs"] += 1
        got = lex(oc) if sc == 0 else None
        if got == exp:
            continue
        # classify by the first divergence and the directive responsible for the expected token there
        if got is None:
            dev = "crash" if isinstance(sc, int) and sc < 0 else ("timeout" if sc == "timeout" else "rejected")
            evs = m.events
            kinds = {e[0] for e in evs}
            dirs = {c_dirclass(e[3][1:], chain_locs) for e in evs}
            sig = "%s|uses=%s|%s" % (dev, ",".join(sorted(kinds)),
                                     "needs-idirafter" if "idirafter" in dirs else "needs=" + ",".join(sorted(dirs)))
        else:
            i = next((j for j in range(min(len(exp), len(got))) if exp[j] != got[j]), min(len(exp), len(got)))
            dev = "got=" + c_tokclass(got[i] if i < len(got) else None, chain_locs)
            evs = [e for e in m.events if e[5] <= i]
            e = evs[-1] if evs else None
            want = c_tokclass(exp[i] if i < len(exp) else None, chain_locs)
            if e:
                nth = "first-lookup" if e is m.events[0] else "later-lookup"
                sig = "#%s%s|%s|want=%s|%s" % (e[0], '""' if e[1] else "<>", nth, want, dev)
            else:
                sig = "main|want=%s|%s" % (want, dev)
        if sep:
            sig += "|-I<space>dir"
        v = res["viol"].setdefault(sig, [0, None])
        v[0] += 1
        size = sum(len(t) for t in files.values()) + len(main)
        if v[1] is None or size < v[1][0]:
            v[1] = (size, dict(files), main, c_options(iorder, after_first, sep, False), exp, got, str(sc), ec[-300:], case)
    shutil.rmtree(wd, ignore_errors=True)
    return res


C_REPLAY = ("mkdir -p sysroot/include && ln -sf $CHIBICC sysroot/chibicc\n"
            "if grep -q '<rejected>' expected.txt; then\n"
            "  sysroot/chibicc -cc1 -E $(cat opts.txt) -cc1-input src/main.c src/main.c > got.txt 2> err.txt && exit 1\n"
            "  exit 0\nfi\n"
            "sysroot/chibicc -cc1 -E $(cat opts.txt) -cc1-input src/main.c src/main.c > got.txt 2> err.txt || exit 1\n"
            + CMP + "\nexit 0")


def part_c(ctx):
    cases = list(c_cases(ctx.tier))
    # keep the cases of one tree together (the tree is rebuilt only when it changes)
    groups = {}
    for c in cases:
        groups.setdefault(c[:4], []).append(c)
    keys = sorted(groups, key=repr)
    ntask = core.NPROC * 4
    tasks = []
    for i in range(ntask):
        cs = [c for k in keys[i::ntask] for c in groups[k]]
        if cs:
            tasks.append((ctx.chibicc, os.path.join(ctx.work, "c_%d" % i), cs))
    agg = {"n": 0, "judged": 0, "disagree": 0, "ref_rejected": 0, "undef": 0, "runs": 0, "rejections_expected": 0}
    outcomes = set()
    dis = None
    for r in core.pmap(c_task, tasks):
        for k in agg:
            agg[k] += r[k]
        outcomes |= r["outcomes"]
        dis = dis or r["disagree_ex"]
        for sig, (cnt, ex) in sorted(r["viol"].items()):
            size, files, main, opts, exp, got, st, err, case = ex
            fl = dict(files)
            fl["src/main.c"] = main
            fl["opts.txt"] = " ".join(opts) + "\n"
            fl["expected.txt"] = " ".join(exp) + "\n"
            fl["observed.txt"] = "status=%s\n%s\n%s\n" % (st, " ".join(got or []), err)
            ctx.violation("C10|include|" + sig,
                          "include resolution %s: options %s, headers in %s; expected %s, got %s (status %s)"
                          % (case[3:6], " ".join(opts), ",".join(case[0]), " ".join(exp), " ".join(got or []), st),
                          files=fl, replay=C_REPLAY)
            for _ in range(cnt - 1):
                ctx.violation("C10|include|" + sig, "")
    if dis:
        raise core.HarnessError("part C: model and gcc disagree on %s: model %s gcc %s" % dis)
    if agg["judged"] < 500 or len(outcomes) < 20:
        raise core.HarnessError("part C vacuous: %s" % agg)
    ctx.cover(c_cases=agg["n"], c_judged=agg["judged"], c_distinct_expected_streams=len(outcomes),
              oracle_disagreements=agg["disagree"], ref_rejected=agg["ref_rejected"], skipped_undefined=agg["undef"],
              traces_validated_against_impl=agg["judged"], c_process_runs=agg["runs"],
              c_expected_rejections=agg["rejections_expected"])
    ctx.sample({"part": "C", "case": "c10h.h in {cur,d1,d3}, every copy chains with #include_next <c10h.h>",
                "files": c_files(("cur", "d1", "d3"), "next<>", ["d1", "d2", "sys", "d3"], None),
                "main": c_main("twice", '"c10h.h"')})


# =====================================================================================================
# Part C2: several includers in different directories name the same header
# =====================================================================================================
# One header name (c10m.h) lives in every non-empty subset of M_LOCS; it is named - always with the same spelling - by
# the primary file and by includer files that live in other directories, with the quote and the angle form, in every
# order.  6.10.2 / the property: the quote form starts in the directory of the file that CONTAINS the directive, so
# each lookup depends on (spelling, form, directory of the including file) and on nothing that happened before.
M_LOCS = ["src", "la", "lb", "d1", "d2"]
M_DIR = {"src": "src", "la": "src/la", "lb": "src/lb", "d1": "d1", "d2": "d2"}      # la, lb: on no search path
M_VIAS = ["main", "la", "lb", "d1", "la>lb"]        # who contains the directive (la>lb: la/n?.h includes ../lb/i?.h)
M_STEPS = [(v, f) for v in M_VIAS for f in "qa"]    # q: #include "c10m.h"   a: #include <c10m.h>
M_INC = {"q": '#include "c10m.h"\n', "a": "#include <c10m.h>\n"}


def m_fixed_files():
    """The includer files (the same in every tree)."""
    files = {}
    for d in ("la", "lb", "d1"):
        for f in "qa":
            files["%s/i%s.h" % (M_DIR[d], f)] = "IB_%s\n%sIE_%s\n" % (d, M_INC[f], d)
    for f in "qa":
        files["src/la/n%s.h" % f] = 'NB_la\n#include "../lb/i%s.h"\nNE_la\n' % f
    return files


def m_main(script):
    o = ["M0\n"]
    for k, (via, f) in enumerate(script):
        if via == "main":
            o.append(M_INC[f])
        elif via == "la>lb":
            o.append('#include "la/n%s.h"\n' % f)
        elif via == "d1":
            o.append('#include "../d1/i%s.h"\n' % f)
        else:
            o.append('#include "%s/i%s.h"\n' % (via, f))
        o.append("M%d\n" % (k + 1))
    return "".join(o)


def m_cases(tier):
    """(placement, -I order, script).  quick: every script of <= 2 steps over the 10 steps, and every script of 3
    quote-form steps from {main, la, lb, d1}; thorough: every script of <= 3 steps, both -I orders."""
    subsets = [tuple(l for i, l in enumerate(M_LOCS) if m >> i & 1) for m in range(1, 32)]
    full = tier != "quick"
    scripts = [s for n in (1, 2) for s in itertools.product(M_STEPS, repeat=n)]
    if full:
        scripts += list(itertools.product(M_STEPS, repeat=3))
    else:
        scripts += list(itertools.product([(v, "q") for v in ("main", "la", "lb", "d1")], repeat=3))
    for sub in subsets:
        # the order of -Id1 / -Id2 can only matter when both hold a copy
        for iorder in ((("d1", "d2"), ("d2", "d1")) if full and "d1" in sub and "d2" in sub else (("d1", "d2"),)):
            for sc in scripts:
                yield (sub, iorder, sc)


def m_hclass(tok, includer, chain_locs):
    """Class of an output token relative to the file that contains the directive being resolved."""
    if tok is None:
        return "nothing"
    if tok.startswith("H_"):
        loc = tok[2:]
        if includer is not None and os.path.dirname(includer) == "/" + M_DIR[loc]:
            return "includer-dir"
        if loc in ("d1", "d2"):
            return "I%d" % (chain_locs.index(loc) + 1)
        return "primary-file-dir" if loc == "src" else "dir-of-another-includer"
    return "main-text" if tok[0] == "M" else "includer-text"


def m_task(args):
    chibicc, wd, cases = args
    res = {"n": 0, "judged": 0, "disagree": 0, "ref_rejected": 0, "viol": {}, "disagree_ex": None,
           "outcomes": set(), "runs": 0, "rejections_expected": 0, "dir_dependent": 0, "timeouts": 0}
    fixed = m_fixed_files()
    last_tree = None
    files = {}
    for case in cases:
        sub, iorder, script = case
        chain_locs = list(iorder) + ["sys", "d3"]
        if sub != last_tree:
            shutil.rmtree(wd, ignore_errors=True)
            for d in list(LOCDIR.values()) + list(M_DIR.values()):
                os.makedirs(os.path.join(wd, d), exist_ok=True)
            os.symlink(chibicc, os.path.join(wd, "sysroot/chibicc"))
            files = dict(fixed)
            for loc in sub:
                files[M_DIR[loc] + "/c10m.h"] = "H_%s\n" % loc
            for rel, txt in files.items():
                with open(os.path.join(wd, rel), "w") as f:
                    f.write(txt)
            last_tree = sub
        main = m_main(script)
        with open(os.path.join(wd, "src/main.c"), "w") as f:
            f.write(main)
        res["n"] += 1
        allf = {os.path.normpath("/" + k): v for k, v in files.items()}
        allf["/src/main.c"] = main
        m = M.Cpp(allf, ["/" + LOCDIR[l] for l in chain_locs])
        opts = c_options(iorder, False, False, False)
        argv = ["sysroot/chibicc", "-cc1", "-E"] + opts + ["-cc1-input", "src/main.c", "src/main.c"]
        sg, og, eg = core.run_limited(GCC + c_options(iorder, False, False, True) + ["src/main.c"], cwd=wd, timeout=20)
        try:
            exp = m.run("/src/main.c")
            rejected = False
        except M.Reject:
            exp, rejected = list(m.out), True
        if rejected != (sg != 0) or (not rejected and lex(og) != exp):
            res["disagree"] += 1
            res["disagree_ex"] = res["disagree_ex"] or (case, "rejection" if rejected else exp, lex(og) if sg == 0 else "rejection")
            continue
        res["judged"] += 1
        sc, oc, ec = core.run_limited(argv, cwd=wd, timeout=20)
        res["runs"] += 1
        if sc == "timeout":             # nothing here can loop: a timeout is load on the machine, not a verdict
            res["timeouts"] += 1
            continue
        got = lex(oc) if sc == 0 else None

        def spelled_before(evs):
            return {(e[1], e[2]) for e in evs}
        if rejected:
            res["rejections_expected"] += 1
            if sc != 0:
                continue
            d, quote, name, includer = m.pending
            nth = "repeated-spelling" if (quote, name) in spelled_before(m.events) else "first-lookup-of-spelling"
            nxt = got[len(exp)] if got[:len(exp)] == exp and len(got) > len(exp) else None
            sig = "multi-includer|#include%s|%s|want=rejected|got=%s" % (
                '""' if quote else "<>", nth, m_hclass(nxt, includer, chain_locs) if nxt else "accepted")
            exp_txt = ["<rejected>"]
        else:
            res["outcomes"].add(tuple(exp))
            hs = {t for t in exp if t.startswith("H_")}
            if len(hs) > 1:
                res["dir_dependent"] += 1       # one spelling, several different files selected in one unit
            if got == exp:
                continue
            if got is None:
                sig = "multi-includer|%s" % ("crash" if isinstance(sc, int) and sc < 0 else
                                             "timeout" if sc == "timeout" else "rejected")
            else:
                i = next((j for j in range(min(len(exp), len(got))) if exp[j] != got[j]), min(len(exp), len(got)))
                evs = [e for e in m.events if e[5] <= i]
                e = evs[-1] if evs else None
                if e and e[2] == "c10m.h":
                    nth = "repeated-spelling" if (e[1], e[2]) in spelled_before(evs[:-1]) else "first-lookup-of-spelling"
                    sig = "multi-includer|#include%s|%s|want=%s|got=%s" % (
                        '""' if e[1] else "<>", nth, m_hclass(exp[i] if i < len(exp) else None, e[6], chain_locs),
                        m_hclass(got[i] if i < len(got) else None, e[6], chain_locs))
                else:
                    sig = "multi-includer|includer-file-lookup|want=%s|got=%s" % (
                        m_hclass(exp[i] if i < len(exp) else None, None, chain_locs),
                        m_hclass(got[i] if i < len(got) else None, None, chain_locs))
            exp_txt = exp
        v = res["viol"].setdefault(sig, [0, None])
        v[0] += 1
        size = sum(len(t) for k, t in files.items() if k.endswith("c10m.h")) * 100 + len(main)
        if v[1] is None or size < v[1][0]:
            v[1] = (size, dict(files), main, opts, exp_txt, got, str(sc), ec[-300:], case)
    shutil.rmtree(wd, ignore_errors=True)
    return res


def part_c2(ctx):
    cases = list(m_cases(ctx.tier))
    groups = {}
    for c in cases:
        groups.setdefault(c[0], []).append(c)
    # shard inside one placement too (31 placements only): a task = one placement x a slice of its scripts
    per = max(1, (core.NPROC * 4) // len(groups))
    tasks = []
    for gi, k in enumerate(sorted(groups)):
        for j in range(per):
            cs = groups[k][j::per]
            if cs:
                tasks.append((ctx.chibicc, os.path.join(ctx.work, "c2_%d_%d" % (gi, j)), cs))
    agg = {"n": 0, "judged": 0, "disagree": 0, "ref_rejected": 0, "runs": 0, "rejections_expected": 0, "dir_dependent": 0,
           "timeouts": 0}
    outcomes = set()
    dis = None
    for r in core.pmap(m_task, tasks):
        for k in agg:
            agg[k] += r[k]
        outcomes |= r["outcomes"]
        dis = dis or r["disagree_ex"]
        for sig, (cnt, ex) in sorted(r["viol"].items()):
            size, files, main, opts, exp, got, st, err, case = ex
            fl = dict(files)
            fl["src/main.c"] = main
            fl["opts.txt"] = " ".join(opts) + "\n"
            fl["expected.txt"] = " ".join(exp) + "\n"
            fl["observed.txt"] = "status=%s\n%s\n%s\n" % (st, " ".join(got or []), err)
            ctx.violation("C10|include|" + sig,
                          "include resolution, several includers: c10m.h in %s, options %s, inclusion script %s; "
                          "expected %s, got %s (status %s)"
                          % (",".join(M_DIR[l] for l in case[0]), " ".join(opts),
                             " ".join("%s:%s" % (v, {"q": '""', "a": "<>"}[f]) for v, f in case[2]),
                             " ".join(exp), " ".join(got or []), st),
                          files=fl, replay=C_REPLAY)
            for _ in range(cnt - 1):
                ctx.violation("C10|include|" + sig, "")
    if dis:
        raise core.HarnessError("part C2: model and gcc disagree on %s: model %s gcc %s" % dis)
    if agg["judged"] < 500 or len(outcomes) < 50 or not agg["dir_dependent"] or not agg["rejections_expected"]:
        raise core.HarnessError("part C2 vacuous: %s" % agg)
    if agg["timeouts"]:
        ctx.incomplete("part C2: %d runs timed out (machine load) and were not judged" % agg["timeouts"])
    ctx.cover(c2_cases=agg["n"], c2_judged=agg["judged"], c2_distinct_expected_streams=len(outcomes),
              c2_units_where_one_spelling_selects_several_files=agg["dir_dependent"],
              c2_expected_rejections=agg["rejections_expected"], c2_process_runs=agg["runs"],
              oracle_disagreements=agg["disagree"], traces_validated_against_impl=agg["judged"],
              c2_rule="c10m.h in every non-empty subset of {src, src/la, src/lb, d1, d2} (-Id1 -Id2%s); inclusion "
                      "scripts = sequences of steps (who contains the directive: primary file | src/la/i?.h | src/lb/i?.h | "
                      "d1/i?.h | src/la/n?.h -> ../lb/i?.h) x (form \"\" | <>): %s; expected = lookup relative to the "
                      "directory of the file containing each directive, independent of earlier lookups"
                      % (", and -Id2 -Id1 where both hold a copy" if ctx.tier != "quick" else "",
                         "all of length <= 3" if ctx.tier != "quick" else
                         "all of length <= 2, and all of length 3 over quote-form steps from {primary, la, lb, d1}"))
    ctx.sample({"part": "C2", "case": "c10m.h in src/la and src/lb; la then lb then la, quote form",
                "main": m_main((("la", "q"), ("lb", "q"), ("la", "q"))), "includers": m_fixed_files()})


# =====================================================================================================
# Part C3: directives that change the PRESUMED position (#line N "file", `# N "file"`) before #include / #pragma once
# =====================================================================================================
# 6.10.4: #line changes the presumed line number and the presumed NAME of the source file - nothing else.  The file a
# later #include selects, and the file a #pragma once belongs to, depend on the real file that contains the directive.
#   tree:  gen/main.c (primary)   nest/o_P_F.h (nested includers on no search path, named "../nest/o_P_F.h")
#          inc/i_P_F.h (nested includers found through -Iinc, named <i_P_F.h>)      chain: -Iinc -Id1 -Ifb
#          c10p.h: a different copy in every subset of {gen, nest, src, inc, d1, compiler's cwd} + always in fb (the last
#          -I directory, so that every lookup resolves and a wrong lookup shows as a wrong file, not as an error)
#   presumption lines P (Q_PRES): none | #line 7 "src/y.y" | "nowhere/y.y" (no such directory) | "y.y" (bare: the
#          compiler's cwd) | absolute | `# 7 "src/y.y"` | `# 7 "nowhere/y.y"` | #line MACRO | #line 7 "d1/c10p.h" (an
#          existing header) | #line 7 (number only)
#   step = (file containing the directive: primary | nest/o | inc/i) x P placed before the directive x form F
#          {#include "c10p.h", #include <c10p.h>; in inc/i also #include_next "c10p.h" / <c10p.h>}: 80 steps
#   case = every script of <= 2 steps (a #line in the primary file stays in force for the later steps) x placement
#          (quick: 6 placements, thorough: all 64) x configuration (compiler cwd = tree root | a sibling directory with
#          every path spelled through `../`).
#   second family (#pragma once / guard): headers pa.h = [P naming the path of the sibling pb.h as the compiler
#          spells it / its own / another] + #pragma once | guard, before or after the #pragma; every script of <= 4
#          inclusions over {pa.h, pb.h}.
# Expected = the model (which ignores the presumed name altogether) and gcc -E agreeing.
Q_LOCS = ["gen", "nest", "src", "inc", "d1", "cwd"]
Q_CHAIN = ["inc", "d1", "fb"]
Q_PRES = [("none", None), ("#line", '#line 7 "@P@src/y.y"'), ("#line", '#line 7 "@P@nowhere/y.y"'), ("#line", '#line 7 "y.y"'),
          ("#line", '#line 7 "@ABS@/src/y.y"'), ("line-marker", '# 7 "@P@src/y.y"'), ("line-marker", '# 7 "@P@nowhere/y.y"'),
          ("#line-macro-expanded", "#line C10PL"), ("#line", '#line 7 "@P@d1/c10p.h"'), ("#line-number-only", "#line 7")]
Q_PROLOG = '#define C10PL 7 "@P@src/y.y"\n'
Q_FORMS = {"q": '#include "c10p.h"', "a": "#include <c10p.h>", "nq": '#include_next "c10p.h"', "na": "#include_next <c10p.h>"}
Q_STEPS = ([("main", p, f) for p in range(len(Q_PRES)) for f in ("q", "a")]
           + [("nest", p, f) for p in range(len(Q_PRES)) for f in ("q", "a")]
           + [("inc", p, f) for p in range(len(Q_PRES)) for f in ("q", "a", "nq", "na")])
Q_QUICK_PLACEMENTS = [("gen", "nest", "src", "inc", "d1", "cwd"), ("gen", "src"), ("src",), ("gen", "nest", "inc", "d1"),
                      ("nest", "src", "cwd"), ("inc", "src", "d1")]
Q_CONFIGS = [("cwd=tree-root", ".", ""), ("cwd=sibling-directory", "run", "../")]     # (label, cwd, prefix of every path)
Q_BATCH = 150


def q_subst(t, prefix, root):
    return t.replace("@P@", prefix).replace("@ABS@", root)


def q_nested_files(prefix, root):
    files = {}
    for who, d in (("nest", "nest/o_%d_%s.h"), ("inc", "inc/i_%d_%s.h")):
        for p, (_, line) in enumerate(Q_PRES):
            for f in (("q", "a") if who == "nest" else ("q", "a", "nq", "na")):
                files[d % (p, f)] = "OB\n%s%s\nOE\n" % (q_subst(line, prefix, root) + "\n" if line else "", Q_FORMS[f])
    return files


def q_case_text(script, prefix, root):
    o = []
    for n, (who, p, f) in enumerate(script):
        if n:
            o.append("M%d\n" % n)
        if who == "main":
            if Q_PRES[p][1]:
                o.append(q_subst(Q_PRES[p][1], prefix, root) + "\n")
            o.append(Q_FORMS[f] + "\n")
        elif who == "nest":
            o.append('#include "../nest/o_%d_%s.h"\n' % (p, f))
        else:
            o.append("#include <i_%d_%s.h>\n" % (p, f))
    return "".join(o)


def q_cases(tier):
    scripts = [(s,) for s in Q_STEPS] + list(itertools.product(Q_STEPS, repeat=2))
    if tier == "quick":
        places = Q_QUICK_PLACEMENTS
    else:
        places = [tuple(l for i, l in enumerate(Q_LOCS) if m >> i & 1) for m in range(64)]
    return places, scripts


def q_class(tok, who):
    if tok is None:
        return "nothing"
    if tok.startswith("H_"):
        loc = tok[2:]
        if loc == {"main": "gen", "nest": "nest", "inc": "inc"}.get(who):
            return "includer-dir"
        return {"src": "dir-named-by-#line", "cwd": "compiler-cwd", "inc": "search-path", "d1": "search-path",
                "fb": "search-path"}.get(loc, "dir-of-another-file")
    return "other-text"


def q_sig(script, exp, got, st, model_events):
    if st != 0:
        return "presumed-name|%s" % ("crash" if isinstance(st, int) and st < 0 else "rejected"), None
    i = next((j for j in range(min(len(exp), len(got))) if exp[j] != got[j]), min(len(exp), len(got)))
    # the step in which the first difference lies
    n = sum(1 for t in exp[:i + 1] if re.match(r"^M\d+$", t)) if i < len(exp) else len(script) - 1
    n = min(n, len(script) - 1)
    who, p, f = script[n]
    # was a presumption with a file name in force in the file containing the directive?
    inforce = Q_PRES[p][0] if who != "main" else next((Q_PRES[pp][0] for w, pp, ff in reversed(script[:n + 1])
                                                       if w == "main" and Q_PRES[pp][0] not in ("none", "#line-number-only")), "none")
    after = "presumed-name-unchanged" if inforce in ("none", "#line-number-only") else "presumed-name-changed"
    return ("presumed-name|%s|%s|want=%s|got=%s" % (after, {"q": '#include""', "a": "#include<>", "nq": '#include_next""', "na": "#include_next<>"}[f],
                                                     q_class(exp[i] if i < len(exp) else None, who),
                                                     q_class(got[i] if i < len(got) else None, who))), inforce


def q_build(wd, place, cfg):
    shutil.rmtree(wd, ignore_errors=True)
    root = os.path.join(os.path.realpath(os.path.dirname(wd)), os.path.basename(wd))
    for d in ("gen", "nest", "src", "inc", "d1", "fb", "run"):
        os.makedirs(os.path.join(root, d))
    label, cwd, prefix = cfg
    files = q_nested_files(prefix, root)
    files["fb/c10p.h"] = "H_fb\n"
    for loc in place:
        files[(os.path.normpath(cwd) + "/c10p.h" if loc == "cwd" else loc + "/c10p.h").replace("./", "")] = "H_%s\n" % loc
    for rel, txt in files.items():
        with open(os.path.join(root, rel), "w") as f:
            f.write(txt)
    return root, files


def q_run(chibicc, root, cfg, name, text, gcc):
    label, cwd, prefix = cfg
    with open(os.path.join(root, "gen", name), "w") as f:
        f.write(text)
    opts = ["-I%s%s" % (prefix, d) for d in Q_CHAIN]
    src = "%sgen/%s" % (prefix, name)
    argv = GCC + opts + [src] if gcc else [chibicc, "-cc1", "-E"] + opts + ["-cc1-input", src, src]
    return core.run_limited(argv, cwd=os.path.join(root, cwd), timeout=30)


def q_task(args):
    chibicc, wd, place, ci, scripts, deadline = args
    cfg = Q_CONFIGS[ci]
    res = {"n": 0, "judged": 0, "disagree": 0, "disagree_ex": None, "viol": {}, "runs": 0, "timeouts": 0, "cut": 0,
           "outcomes": set(), "chain_diff": 0, "presumed_dir_has_copy": 0}
    root, files = q_build(wd, place, cfg)
    prolog = q_subst(Q_PROLOG, cfg[2], root)
    mfiles = {"/r/" + k: v.replace(root, "/r") for k, v in files.items()}
    chain = ["/r/" + d for d in Q_CHAIN]

    def run(texts, gcc, name):
        def runner(src, opts, cwd):
            res["runs"] += 1
            with open(src) as f:
                return q_run(chibicc, root, cfg, name, f.read(), gcc)
        return run_batch(runner, wd, texts, name="batch.c", prolog=prolog)

    confirmed, final = {}, {}
    for batch in core.chunks(scripts, Q_BATCH):
        if time.time() > deadline:
            res["cut"] = 1
            break
        texts = [q_case_text(sc, cfg[2], root) for sc in batch]
        mtexts = [q_case_text(sc, cfg[2], "/r") for sc in batch]
        mfiles["/r/gen/main.c"] = (prolog.replace(root, "/r") + "".join("S%d\n%s" % (k, t) for k, t in enumerate(mtexts))
                                   + "S%d\n" % len(mtexts))
        exp_all = segments(" ".join(M.Cpp(mfiles, chain).run("/r/gen/main.c")), len(mtexts))
        r_c = run(texts, False, "main.c")
        r_g = run(texts, True, "main.c")
        for sc, txt, exp, (st, tc, ec), (sg, tg, eg) in zip(batch, texts, exp_all, r_c, r_g):
            res["n"] += 1
            if sg == "timeout" or st == "timeout":
                res["timeouts"] += 1
                continue
            if sg != 0 or tg != exp:
                res["disagree"] += 1
                res["disagree_ex"] = res["disagree_ex"] or (cfg[0], place, txt, exp, tg if sg == 0 else "rejected: " + eg[-200:])
                continue
            res["judged"] += 1
            res["outcomes"].add(tuple(exp))
            if "src" in place and any(Q_PRES[p][1] and "src/" in Q_PRES[p][1] for _, p, _ in sc):
                res["presumed_dir_has_copy"] += 1
            if st == 0 and tc == exp:
                continue
            pre = q_sig(sc, exp, tc, st, None)[0] if st == 0 else None
            hist = confirmed.get(pre)
            if hist and hist[0] >= CONFIRM and hist[1] == 0 and pre in final:
                res["viol"][final[pre]][0] += 1
                continue
            # deviating in the batch: the case alone decides (in the batch, a #line of an earlier case is still in force)
            (sa, ta, ea), = run([txt], False, "alone.c")
            if sa == "timeout":
                res["timeouts"] += 1
                res["judged"] -= 1
                continue
            if sa == 0 and ta == exp:
                res["chain_diff"] += 1
                sig, inforce = "presumed-name|set-by-an-earlier-directive-of-the-primary-file|wrong-file-selected", "earlier"
                alone = False
                if pre:
                    confirmed.setdefault(pre, [0, 0])[1] += 1
            else:
                sig, inforce = q_sig(sc, exp, ta or [], sa, None)
                alone = True
                if pre:
                    confirmed.setdefault(pre, [0, 0])[0 if sig == pre else 1] += 1
                if "|presumed-name-changed|" in sig:
                    # the same script without any presumption line (the model's expectation is the same by construction)
                    (sv, tv, ev), = run([q_case_text([(w, 0, f) for w, p, f in sc], cfg[2], root)], False, "alone.c")
                    if sv == 0 and tv == exp:
                        sig = "|".join(sig.split("|")[:3]) + "|wrong-file-selected|right-file-without-the-#line"
            if alone and pre and q_sig(sc, exp, ta or [], sa, None)[0] == pre:
                final[pre] = sig
            v = res["viol"].setdefault(sig, [0, None])
            v[0] += 1
            size = len(sc) * 1000 + len(txt) + len(place) * 10 + (0 if alone else 10 ** 6)
            if v[1] is None or size < v[1][0]:
                if alone:
                    v[1] = (size, ci, place, prolog.replace(root, "@ABS@") + q_case_text(sc, cfg[2], "@ABS@"), exp, ta or [], str(sa),
                            ea[-300:], inforce)
                else:
                    whole = (prolog.replace(root, "@ABS@") + "".join("S%d\n%s" % (k, q_case_text(s2, cfg[2], "@ABS@"))
                                                                     for k, s2 in enumerate(batch)) + "S%d\n" % len(batch))
                    allexp = []
                    for k, e2 in enumerate(exp_all):
                        allexp += ["S%d" % k] + e2
                    v[1] = (size, ci, place, whole, allexp + ["S%d" % len(batch)], ["<stream of the whole batch>"], str(st),
                            ec[-300:], inforce)
    shutil.rmtree(wd, ignore_errors=True)
    return res


Q_REPLAY = r"""TOP=$(pwd -P)
for f in $(find . -name '*.h' -o -name 'main.tmpl'); do sed -i "s|@ABS@|$TOP|g" $f; done
mkdir -p gen nest src inc d1 fb run; cp main.tmpl gen/main.c
P=$(cat prefix.txt)
cd "$(cat cwd.txt)" || exit 0
$CHIBICC -cc1 -E -I${P}inc -I${P}d1 -I${P}fb -cc1-input ${P}gen/main.c ${P}gen/main.c > $TOP/got.txt 2> $TOP/err.txt || exit 1
cd $TOP
python3 $VERIF/harness/c10_cmp.py got.txt expected.txt || exit 1
exit 0"""


# ---- second family: the file a #pragma once / a guard belongs to ------------------------------------
# pa.h / pb.h live next to the primary file (gen/); the compiler names them "<prefix>gen/pa.h".  @SELF@ / @SIB@ = the
# path of pa.h itself / of its sibling pb.h spelled exactly as the compiler puts it together (directory of the includer
# + "/" + name), @BARE@ = the bare sibling name.
R_PRES = [None, '#line 1 "@SIB@"', '# 1 "@SIB@"', '#line 1 "@BARE@"', '#line 1 "@P@nowhere/x.h"', '#line 1 "@ABSSIB@"',
          '#line 1 "./@SIB@"']
R_KINDS = ["once", "once-then-presumption", "guard", "once+guard"]
R_BATCH = 100


def r_header(kind, pres, k, prefix, root):
    line = None
    if pres:
        line = (pres.replace("@SIB@", "%sgen/pb%d.h" % (prefix, k)).replace("@BARE@", "pb%d.h" % k)
                .replace("@ABSSIB@", "%s/gen/pb%d.h" % (root, k)).replace("@P@", prefix))
    o = []
    if kind != "once-then-presumption" and line:
        o.append(line)
    if "once" in kind:
        o.append("#pragma once")
    if kind == "once-then-presumption" and line:
        o.append(line)
    if "guard" in kind:
        o += ["#ifndef RG%d" % k, "#define RG%d" % k, "PA%d" % k, "#endif"]
    else:
        o.append("PA%d" % k)
    return "\n".join(o) + "\n"


def r_scripts():
    return ["".join(s) for n in range(1, 5) for s in itertools.product("ab", repeat=n) if "a" in s]


def r_main(script, k):
    return "".join('#include "p%s%d.h"\nM%d\n' % (c, k, n + 1) for n, c in enumerate(script))


def r_task(args):
    chibicc, wd, ci, cases, deadline = args
    cfg = Q_CONFIGS[ci]
    res = {"n": 0, "judged": 0, "disagree": 0, "disagree_ex": None, "viol": {}, "timeouts": 0, "cut": 0, "suppressed": 0}
    for batch in core.chunks(cases, R_BATCH):
        if time.time() > deadline:
            res["cut"] = 1
            break
        root, _ = q_build(wd, (), cfg)
        mfiles = {}
        for k, (kind, pi, script) in enumerate(batch):
            for name, txt in (("pa%d.h" % k, r_header(kind, R_PRES[pi], k, cfg[2], root)), ("pb%d.h" % k, "PB%d\n" % k)):
                with open(os.path.join(root, "gen", name), "w") as f:
                    f.write(txt)
                mfiles["/r/gen/" + name] = txt.replace(root, "/r")
        texts = [r_main(script, k) for k, (kind, pi, script) in enumerate(batch)]
        mfiles["/r/gen/main.c"] = "".join("S%d\n%s" % (k, t) for k, t in enumerate(texts)) + "S%d\n" % len(texts)
        exp_all = segments(" ".join(M.Cpp(mfiles, ["/r/" + d for d in Q_CHAIN]).run("/r/gen/main.c")), len(texts))

        def runner(gcc):
            def f(src, opts, cwd):
                with open(src) as fh:
                    return q_run(chibicc, root, cfg, "main.c", fh.read(), gcc)
            return f
        r_c = run_batch(runner(False), wd, texts, name="batch.c")
        r_g = run_batch(runner(True), wd, texts, name="batch.c")
        for k, ((kind, pi, script), txt, exp, (st, tc, ec), (sg, tg, eg)) in enumerate(zip(batch, texts, exp_all, r_c, r_g)):
            res["n"] += 1
            if sg == "timeout" or st == "timeout":
                res["timeouts"] += 1
                continue
            if sg != 0 or tg != exp:
                res["disagree"] += 1
                res["disagree_ex"] = res["disagree_ex"] or (cfg[0], (kind, R_PRES[pi]), txt, exp, tg if sg == 0 else "rejected: " + eg[-200:])
                continue
            res["judged"] += 1
            res["suppressed"] += exp.count("PA%d" % k) < script.count("a")
            if st == 0 and tc == exp:
                continue
            if st != 0:
                dev = "crash" if isinstance(st, int) and st < 0 else "rejected"
            else:
                na, nb = tc.count("PA%d" % k) - exp.count("PA%d" % k), tc.count("PB%d" % k) - exp.count("PB%d" % k)
                dev = "+".join(x for x, c in (("file-with-the-directive-included-again", na > 0), ("file-with-the-directive-not-included", na < 0),
                                              ("file-named-by-#line-not-included", nb < 0), ("file-named-by-#line-included-again", nb > 0)) if c) or "wrong-tokens"
            sig = "presumed-name|%s|%s|%s" % ("presumed-name-changed" if R_PRES[pi] else "presumed-name-unchanged",
                                               "#pragma-once" if "once" in kind else "guard", dev)
            v = res["viol"].setdefault(sig, [0, None])
            v[0] += 1
            size = len(script) * 1000 + len(txt)
            if v[1] is None or size < v[1][0]:
                ren = lambda toks: [re.sub(r"^(P[AB])%d$" % k, r"\g<1>0", t) for t in (toks or [])]
                v[1] = (size, ci, kind, R_PRES[pi], r_header(kind, R_PRES[pi], 0, cfg[2], "@ABS@"), r_main(script, 0), ren(exp), ren(tc),
                        str(st), ec[-300:])
    shutil.rmtree(wd, ignore_errors=True)
    return res


def part_c3(ctx):
    places, scripts = q_cases(ctx.tier)
    per = 4 if ctx.tier == "quick" else 1
    tasks = []
    for pi, place in enumerate(places):
        for ci in range(len(Q_CONFIGS)):
            for j in range(per):
                tasks.append((ctx.chibicc, os.path.join(ctx.work, "c3_%d_%d_%d" % (pi, ci, j)), place, ci, scripts[j::per],
                              ctx.deadline - 15))
    keys = ["n", "judged", "disagree", "runs", "timeouts", "chain_diff", "presumed_dir_has_copy"]
    agg = dict.fromkeys(keys, 0)
    outcomes, viol, dis = set(), {}, None
    for r in core.pmap(q_task, tasks):
        for k in keys:
            agg[k] += r[k]
        outcomes |= r["outcomes"]
        dis = dis or r["disagree_ex"]
        if r["cut"] and ctx.exhaustive:
            ctx.incomplete("part C3: deadline reached; the cases judged so far are reported")
        for sig, (cnt, ex) in r["viol"].items():
            v = viol.setdefault(sig, [0, ex])
            v[0] += cnt
            if ex[0] < v[1][0]:
                v[1] = ex
    for sig, (cnt, ex) in sorted(viol.items()):
        size, ci, place, main, exp, got, st, err, inforce = ex
        label, cwd, prefix = Q_CONFIGS[ci]
        fl = {k: v for k, v in q_nested_files(prefix, "@ABS@").items()}
        fl["fb/c10p.h"] = "H_fb\n"
        for loc in place:
            fl[(os.path.normpath(cwd) + "/c10p.h" if loc == "cwd" else loc + "/c10p.h").replace("./", "")] = "H_%s\n" % loc
        fl.update({"main.tmpl": main, "prefix.txt": prefix + "\n", "cwd.txt": cwd + "\n", "expected.txt": " ".join(exp) + "\n",
                   "observed.txt": "status=%s\n%s\n%s\n" % (st, " ".join(got), err)})
        ctx.violation("C10|include|" + sig,
                      "a #line / line marker changes the presumed file name only, never the file an #include selects: c10p.h in "
                      "{%s,fb}, %s, -Iinc -Id1 -Ifb, presumption in force in the including file: %s; primary file gen/main.c:\n%s"
                      "expected %s, got %s (status %s)"
                      % (",".join(place), label, inforce, main if len(main) < 600 else "(whole batch)\n", " ".join(exp) if len(exp) < 40 else "...",
                         " ".join(got), st),
                      files=fl, replay=Q_REPLAY)
        for _ in range(cnt - 1):
            ctx.violation("C10|include|" + sig, "")
    if dis:
        raise core.HarnessError("part C3: model and gcc disagree: %s, c10p.h in %s\n%s\nmodel %s gcc %s" % dis)
    # second family
    rcases = [(kind, pi, sc) for kind in R_KINDS for pi in range(len(R_PRES)) for sc in r_scripts()]
    ntask = core.NPROC
    rtasks = [(ctx.chibicc, os.path.join(ctx.work, "c3r_%d_%d" % (ci, i)), ci, rcases[i::ntask], ctx.deadline - 15)
              for ci in range(len(Q_CONFIGS)) for i in range(ntask)]
    rkeys = ["n", "judged", "disagree", "timeouts", "suppressed"]
    ragg = dict.fromkeys(rkeys, 0)
    rviol, rdis = {}, None
    for r in core.pmap(r_task, rtasks):
        for k in rkeys:
            ragg[k] += r[k]
        rdis = rdis or r["disagree_ex"]
        if r["cut"] and ctx.exhaustive:
            ctx.incomplete("part C3 (#pragma once family): deadline reached")
        for sig, (cnt, ex) in r["viol"].items():
            v = rviol.setdefault(sig, [0, ex])
            v[0] += cnt
            if ex[0] < v[1][0]:
                v[1] = ex
    for sig, (cnt, ex) in sorted(rviol.items()):
        size, ci, kind, pres, h0, m0, exp, got, st, err = ex
        label, cwd, prefix = Q_CONFIGS[ci]
        ctx.violation("C10|reinclude|" + sig,
                      "a #line / line marker never changes the file a #pragma once or a guard belongs to: %s; gen/pa0.h (kind %s):\n%s"
                      "gen/pb0.h: PB0; primary file gen/main.c:\n%sexpected %s, got %s (status %s)"
                      % (label, kind, h0, m0, " ".join(exp), " ".join(got), st),
                      files={"gen/pa0.h": h0, "gen/pb0.h": "PB0\n", "main.tmpl": m0, "prefix.txt": prefix + "\n", "cwd.txt": cwd + "\n",
                             "expected.txt": " ".join(exp) + "\n", "observed.txt": "status=%s\n%s\n%s\n" % (st, " ".join(got), err)},
                      replay=Q_REPLAY)
        for _ in range(cnt - 1):
            ctx.violation("C10|reinclude|" + sig, "")
    if rdis:
        raise core.HarnessError("part C3 (#pragma once family): model and gcc disagree: %s, header %s\n%s\nmodel %s gcc %s" % rdis)
    if agg["timeouts"] or ragg["timeouts"]:
        ctx.incomplete("part C3: %d cases timed out (machine load) and were not judged" % (agg["timeouts"] + ragg["timeouts"]))
    elif ctx.exhaustive and (agg["judged"] < 1000 or len(outcomes) < 20 or not agg["presumed_dir_has_copy"] or ragg["judged"] < 200
                             or not ragg["suppressed"]):
        raise core.HarnessError("part C3 vacuous: %s %s" % (agg, ragg))
    ctx.cover(c3_cases=agg["n"], c3_judged=agg["judged"], c3_distinct_expected_streams=len(outcomes), c3_process_runs=agg["runs"],
              c3_steps=len(Q_STEPS), c3_scripts=len(scripts), c3_placements=len(places), c3_configurations=[c[0] for c in Q_CONFIGS],
              c3_presumption_lines=[p[1] or "(none)" for p in Q_PRES],
              c3_cases_where_the_presumed_directory_holds_a_copy=agg["presumed_dir_has_copy"],
              c3_chained_vs_alone_differences=agg["chain_diff"],
              c3_once_cases=ragg["n"], c3_once_judged=ragg["judged"], c3_once_presumption_lines=[p or "(none)" for p in R_PRES],
              c3_once_header_kinds=R_KINDS, oracle_disagreements=agg["disagree"] + ragg["disagree"],
              traces_validated_against_impl=agg["judged"] + ragg["judged"],
              c3_rule="directives that change the presumed position before an inclusion: step = (directive in the primary file | in "
                      "a nested header on no search path | in a nested header found through -I) x presumption line {none, #line N "
                      "\"dir/file\" with an existing / a nonexistent / no directory / absolute / naming an existing header, `# N "
                      "\"file\"` marker, macro-expanded, number only} x {#include \"\", <>, #include_next \"\", <>}; every script of "
                      "<= 2 steps x c10p.h in %s of {primary's dir, nested includer's dir, dir named by #line, two -I dirs, "
                      "compiler's cwd} x 2 configurations; plus #line before/after #pragma once / a guard naming the sibling "
                      "header's path as the compiler spells it, every script of <= 4 inclusions over the two headers; "
                      "expected: the selected FILE never depends on the presumed name (model ignoring #line == gcc -E)"
                      % ("6 subsets" if ctx.tier == "quick" else "every subset"))
    ctx.sample({"part": "C3", "main": Q_PROLOG + q_case_text((("main", 1, "q"), ("inc", 6, "nq")), "", "/abs"),
                "nested": q_nested_files("", "/abs")["inc/i_6_nq.h"]})


# =====================================================================================================
# Part D: re-inclusion shortcuts (#pragma once, include-guard detection)
# =====================================================================================================
D_BATCH = 120
D_OPENERS = {"ifndef": "#ifndef %s", "if!defined": "#if !defined %s", "if!defined()": "#if !defined(%s)"}


def d_shapes():
    """(lead text?, #pragma once position, guard opener, #define kind, guard's own #else/#elif, body, trailer)"""
    for lead in (0, 1):
        for once in ("none", "top", "in", "end"):
            for trail in ("none", "text", "ifndef2", "if1"):
                if once != "in":
                    yield (lead, once, "none", "none", "none", "plain", trail)
                for opener in D_OPENERS:
                    for define in ("G", "none", "other"):
                        for mid in ("none", "else", "elif"):
                            for body in ("plain", "nested"):
                                yield (lead, once, opener, define, mid, body, trail)


def d_header(shape, k):
    lead, once, opener, define, mid, body, trail = shape
    G = "G%d" % k
    o = []
    if once == "top":
        o.append("#pragma once")
    if lead:
        o.append("L")
    if opener != "none":
        o.append(D_OPENERS[opener] % G)
        if define == "G":
            o.append("#define " + G)
        elif define == "other":
            o.append("#define H%d" % k)
    if once == "in":
        o.append("#pragma once")
    o.append("B")
    if body == "nested":
        o += ["#ifdef %s" % G, "N1", "#else", "N2", "#endif", "#if 0", "N3", "#endif", "B2"]
    if opener != "none":
        if mid == "else":
            o += ["#else", "X"]
        elif mid == "elif":
            o += ["#elif 1", "X"]
        o.append("#endif")
    if trail == "text":
        o.append("T")
    elif trail == "ifndef2":
        o += ["#ifndef Q%d" % k, "C", "#endif"]
    elif trail == "if1":
        o += ["#if 1", "C", "#endif"]
    if once == "end":
        o.append("#pragma once")
    # gcc's #pragma once takes two files of equal size, mtime and CONTENT for one file: every header of a batch carries
    # its index in a comment on the body line (no token, not a line of its own: guard recognition is not affected)
    o[o.index("B")] = "B /* h%d */" % k
    return "\n".join(o) + "\n"


D_MAINS = [(pre, n, between, sp) for pre in (0, 1) for n in (2, 3) for between in ("none", "undef")
           for sp in ("same", "dotslash", "angle")]


def d_main(mainv, k):
    pre, n, between, sp = mainv
    G = "G%d" % k
    o = []
    if pre:
        o.append("#define " + G)
    for i in range(n):
        if i:
            o.append("I%d" % i)
            if between == "undef":
                o.append("#undef " + G)
        name = "h%d.h" % k
        if i == 0 or sp == "same":
            o.append('#include "%s"' % name)
        elif sp == "dotslash":
            o.append('#include "./%s"' % name)
        else:
            o.append("#include <%s>" % name)
    return "\n".join(o) + "\n"


def d_sig(shape, mainv, exp, st, got):
    lead, once, opener, define, mid, body, trail = shape
    dis = []
    if opener == "none":
        dis.append("no-guard")
    else:
        if lead:
            dis.append("text-before-guard")
        if define != "G":
            dis.append("guard-macro-not-defined-by-file")
        if mid != "none":
            dis.append("guard-has-#" + mid)
        if trail == "text":
            dis.append("text-after-#endif")
        elif trail != "none":
            dis.append("second-conditional-after-#endif")
    if st != 0:
        dev = "crash" if isinstance(st, int) and st < 0 else "rejected"
    else:
        got = got or []
        if len(got) < len(exp):
            dev = "inclusion-suppressed"
        elif len(got) > len(exp):
            dev = "suppressed-file-included-again"
        else:
            dev = "wrong-tokens"
    return "%s|once=%s|%s|G-%s|%s" % (opener, once, "+".join(dis) or "proper-guard",
                                      {"none": "kept", "undef": "undefined-between"}[mainv[2]] + ("+predefined" if mainv[0] else ""),
                                      dev)


def d_task(args):
    chibicc, wd, cases = args
    inc = os.path.join(wd, "inc")
    res = {"n": 0, "judged": 0, "disagree": 0, "undef": 0, "viol": {}, "disagree_ex": None, "runs": 0,
           "suppressed_expected": 0, "reincluded_expected": 0}
    for bi, batch in enumerate(core.chunks(cases, D_BATCH)):
        shutil.rmtree(wd, ignore_errors=True)
        os.makedirs(inc)
        files = {}
        items = []
        for j, (shape, mainv) in enumerate(batch):
            res["n"] += 1
            if shape[1] != "none" and mainv[3] == "dotslash":
                res["undef"] += 1       # file identity under #pragma once for two spellings is implementation-defined
                continue
            k = len(items)
            h = d_header(shape, k)
            files["/inc/h%d.h" % k] = h
            with open(os.path.join(inc, "h%d.h" % k), "w") as f:
                f.write(h)
            items.append((shape, mainv, d_main(mainv, k), h))
        texts = [it[2] for it in items]
        mtxt = "".join("S%d\n%s" % (k, t) for k, t in enumerate(texts)) + "S%d\n" % len(texts)
        allf = dict(files)
        allf["/inc/b.c"] = mtxt
        exp_all = segments(" ".join(M.Cpp(allf, ["/inc"]).run("/inc/b.c")), len(texts))
        run_c = lambda s, o, c: cc_E(chibicc, s, o, c)
        r_c = run_batch(run_c, inc, texts, opts=["-I" + inc])
        r_g = run_batch(lambda s, o, c: gcc_E(s, o, c), inc, texts, opts=["-I" + inc])
        res["runs"] += 1
        for k, ((shape, mainv, txt, h), exp, (sc, tc, ec), (sg, tg, eg)) in enumerate(zip(items, exp_all, r_c, r_g)):
            if sg != 0 or tg != exp:
                res["disagree"] += 1
                res["disagree_ex"] = res["disagree_ex"] or (shape, mainv, h, txt, exp, tg)
                continue
            res["judged"] += 1
            once_text = len([t for t in exp if t == "B"])
            res["suppressed_expected" if once_text < mainv[1] else "reincluded_expected"] += 1
            if sc == 0 and tc == exp:
                continue
            sig = d_sig(shape, mainv, exp, sc, tc)
            v = res["viol"].setdefault(sig, [0, None])
            v[0] += 1
            size = len(h) + len(txt)
            if v[1] is None or size < v[1][0]:
                # stand-alone rendering of this case (header renamed to index 0)
                h0, m0 = d_header(shape, 0), d_main(mainv, 0)
                v[1] = (size, h0, m0, exp, tc, str(sc), ec)
    shutil.rmtree(wd, ignore_errors=True)
    return res


D_REPLAY = ("$CHIBICC -cc1 -E -Iinc -cc1-input inc/m.c inc/m.c > got.txt 2> err.txt || exit 1\n" + CMP + "\nexit 0")


def part_d(ctx):
    cases = [(s, m) for s in d_shapes() for m in D_MAINS]
    ntask = core.NPROC * 2
    tasks = [(ctx.chibicc, os.path.join(ctx.work, "d_%d" % i), cases[i::ntask]) for i in range(ntask)]
    agg = {"n": 0, "judged": 0, "disagree": 0, "undef": 0, "runs": 0, "suppressed_expected": 0, "reincluded_expected": 0}
    dis = None
    for r in core.pmap(d_task, tasks):
        for k in agg:
            agg[k] += r[k]
        dis = dis or r["disagree_ex"]
        for sig, (cnt, ex) in sorted(r["viol"].items()):
            size, h0, m0, exp, got, st, err = ex
            ctx.violation("C10|reinclude|" + sig,
                          "re-inclusion: header\n%s\nincluded by\n%s\nexpected (textual inclusion / #pragma once) %s, got %s (status %s)"
                          % (h0, m0, " ".join(exp), " ".join(got or []), st),
                          files={"inc/h0.h": h0, "inc/m.c": m0, "expected.txt": " ".join(exp) + "\n",
                                 "observed.txt": "status=%s\n%s\n%s\n" % (st, " ".join(got or []), err)},
                          replay=D_REPLAY)
            for _ in range(cnt - 1):
                ctx.violation("C10|reinclude|" + sig, "")
    if dis:
        raise core.HarnessError("part D: model and gcc disagree: shape %s main %s\n%s\n%s\nmodel %s gcc %s" % dis)
    if agg["judged"] < 1000 or not agg["suppressed_expected"] or not agg["reincluded_expected"]:
        raise core.HarnessError("part D vacuous: %s" % agg)
    ctx.cover(d_cases=agg["n"], d_judged=agg["judged"], d_file_shapes=len(list(d_shapes())), d_include_scripts=len(D_MAINS),
              d_expected_suppressed=agg["suppressed_expected"], d_expected_reincluded=agg["reincluded_expected"],
              oracle_disagreements=agg["disagree"], skipped_undefined=agg["undef"],
              traces_validated_against_impl=agg["judged"])
    sh = (0, "none", "ifndef", "G", "else", "plain", "text")
    ctx.sample({"part": "D", "shape": list(sh), "header": d_header(sh, 0), "main": d_main((0, 2, "none", "same"), 0)})


# =====================================================================================================
# Part D2: re-inclusion shortcuts x path spelling (which FILE a #pragma once / a detected guard belongs to)
# =====================================================================================================
# A small project tree with symbolic links; one header basename has a DIFFERENT copy in seven directories:
#   w/            c.h                      (w = parent of the project root)
#   w/r/          c.h  main.c              (project root)
#   w/r/s/        c.h  lk -> ../o/q        (lk/.. is w/r/o, NOT w/r/s)
#   w/r/s/t/      c.h  main.c  up -> ../..  ln.h -> c.h          (sub-directory two levels down; up/.. is w)
#   w/r/o/        c.h  ln.h -> ../c.h
#   w/r/o/q/      c.h
#   w/r/o/t/      c.h
# A REFERENCE is (form, spelling): quote form = spelling relative to the directory of the primary file, angle form =
# spelling relative to the project root, which is the only -I directory (given relative to the compiler's cwd).
# Spellings = EVERY sequence of <= n components over P_COMPS followed by c.h | ln.h that names an existing file
# (+ the absolute paths of three copies).  A case = a primary file with 2 (thorough: also 3) references, every header
# copy being of one KIND (#pragma once | its own guard | both | nothing), run under a CONFIGURATION = (compiler cwd,
# how the primary file is named on the command line, how -I names the root).
# Expected = textual inclusion where a file is IDENTIFIED BY WHAT THE SPELLING RESOLVES TO (POSIX resolution, model VFS,
# cross-checked against the real tree with os.path.realpath, and against gcc):
#   * two different files are never conflated: both are included, whatever their spellings look like after any textual
#     simplification (`../../c.h` / `c.h`, `lk/../t/c.h` / `t/c.h`, same basename, `./`, `//`) - ALWAYS judged;
#   * the same file through the same reference with #pragma once: suppressed - judged;
#   * the same file through two different references with #pragma once (no guard): implementation-defined whether it
#     is recognised; included once (gcc: identity) or twice (chibicc: name) are both accepted, anything else is not;
#   * guarded / unguarded files: plain textual inclusion (the guard does the suppression, identical either way).
P_DIRS = {"w": "/w", "r": "/w/r", "s": "/w/r/s", "st": "/w/r/s/t", "o": "/w/r/o", "oq": "/w/r/o/q", "ot": "/w/r/o/t"}
P_DIRLINKS = {"/w/r/s/lk": "../o/q", "/w/r/s/t/up": "../.."}
P_FILELINKS = {"/w/r/s/t/ln#.h": "c#.h", "/w/r/o/ln#.h": "../c#.h"}       # '#' = index of the case in its batch
P_COMPS = [".", "..", "", "r", "s", "t", "o", "q", "lk", "up"]
P_LEAVES = ["c#.h", "ln#.h"]
P_ABS = ["st", "r", "s"]                    # copies also named by their absolute path
P_KINDS = {"once": "#pragma once\nB@K_%s\n",
           "guard": "#ifndef G@K_%s\n#define G@K_%s\nB@K_%s\n#endif\n",
           "plain": "B@K_%s\n",
           "once+guard": "#pragma once\n#ifndef G@K_%s\n#define G@K_%s\nB@K_%s\n#endif\n"}
# (label, compiler cwd, directory of the primary file, name of the primary file as given, -I argument naming /w/r)
P_CONFIGS = [
    ("cwd=source-dir-2-levels-down|primary=main.c", "/w/r/s/t", "st", "main.c", "../.."),
    ("cwd=project-root|primary=s/t/main.c", "/w/r", "st", "s/t/main.c", "."),
    ("cwd=project-root|primary=main.c-in-root", "/w/r", "r", "main.c", "../r"),
    ("cwd=2-levels-down|primary=../../main.c", "/w/r/s/t", "r", "../../main.c", "../../"),
    ("cwd=2-levels-down|primary=absolute", "/w/r/s/t", "st", "@W@/r/s/t/main.c", "@W@/r"),
    # thorough only
    ("cwd=sibling-dir|primary=../s/t/main.c", "/w/r/o", "st", "../s/t/main.c", ".."),
    ("cwd=above-root|primary=r/s/t/main.c", "/w", "st", "r/s/t/main.c", "r"),
    ("cwd=1-level-down|primary=t/main.c", "/w/r/s", "st", "t/main.c", ".."),
    ("cwd=2-levels-down|primary=./main.c", "/w/r/s/t", "st", "./main.c", "./../.."),
    ("cwd=symlinked-dir|primary=../../s/t/main.c", "/w/r/s/lk", "st", "../../s/t/main.c", "../.."),
]
P_NQUICK = 5
P_BATCH = 250


def p_vfs(indices=(0,)):
    files, links = {}, dict(P_DIRLINKS)
    for k in indices:
        for tag, d in P_DIRS.items():
            files["%s/c%d.h" % (d, k)] = tag
        for l, t in P_FILELINKS.items():
            links[l.replace("#", str(k))] = t.replace("#", str(k))
    for tag in ("st", "r"):
        files[P_DIRS[tag] + "/main.c"] = "main"
    return M.VFS(P_DIRS.values(), files, links)


def p_header(kind, tag, k):
    return (P_KINDS[kind] % ((tag,) * P_KINDS[kind].count("%s"))).replace("@K", str(k))


def p_refs(pdir, maxlen):
    """References usable from a primary file in directory pdir: (form, spelling with '#', level, tag of the file)."""
    v = p_vfs()
    tagof = {"%s/c0.h" % d: t for t, d in P_DIRS.items()}
    refs = []
    for form, base in (("q", P_DIRS[pdir]), ("a", P_DIRS["r"])):
        # `//` inside <...> is undefined behaviour (6.4.7p3; chibicc lexes it as a comment and rejects the directive): the
        # empty component appears in quote-form names only (equally undefined on paper, but the model, gcc and chibicc
        # all read the string as a file name), and in the -I argument of one configuration
        comps = [c for c in P_COMPS if c != "" or form == "q"]
        for sp, n, f in M.path_spellings(v, base, comps, [l.replace("#", "0") for l in P_LEAVES], maxlen):
            refs.append((form, sp[:-5] + "ln#.h" if sp.endswith("ln0.h") else sp[:-4] + "c#.h", n, tagof[f]))
    for tag in P_ABS:
        refs.append(("q", "@W@" + P_DIRS[tag][2:] + "/c#.h", 2, tag))
    return refs


def p_scripts(tier, refs):
    """Index tuples into refs.  quick: every ordered pair with one member of <= 2 components and the other of <= 3
    (angle form <= 2); thorough: one member <= 2 and the other <= 4 (angle form <= 3), every pair where both are <= 3,
    and every triple of quote-form references of <= 2 components."""
    full = tier != "quick"
    lo = [i for i, r in enumerate(refs) if r[2] <= 2]
    hi = [i for i, r in enumerate(refs) if r[2] <= (3 if full or r[0] == "q" else 2) or (full and r[0] == "q")]
    mid = [i for i, r in enumerate(refs) if r[2] <= 3] if full else lo
    los, mids = set(lo), set(mid)
    out = [(i, j) for i in hi for j in hi if i in los or j in los or (i in mids and j in mids)]
    if full:
        ql = [i for i in lo if refs[i][0] == "q"]
        out += list(itertools.product(ql, repeat=3))
    return out


def p_directive(ref, k, w):
    sp = ref[1].replace("#", str(k)).replace("@W@", w)
    return '#include "%s"\n' % sp if ref[0] == "q" else "#include <%s>\n" % sp


def p_case_text(refs, script, k, w, undef=False):
    o = []
    for n, i in enumerate(script):
        if n:
            o.append("M%d\n" % n)
            if undef:
                o.append("#undef G%d_%s\n" % (k, refs[script[0]][3]))
        o.append(p_directive(refs[i], k, w))
    return "".join(o)


def p_accept(kind, refs, script, k, undef):
    """-> (slots, optional): slots[n] = tokens expected for the n-th reference when files are identified by what the
    spelling resolves to; optional[n] = True where including the file once more is implementation-defined."""
    slots, opt = [], []
    seen_files, seen_refs = set(), set()
    guards = set()
    for n, i in enumerate(script):
        tag = refs[i][3]
        tok = ["B%d_%s" % (k, tag)]
        if undef and n:
            guards.discard(refs[script[0]][3])
        if "once" in kind and tag in seen_files:
            slots.append([])
            # the same reference again names the same file by the same path: must be suppressed; another spelling
            # of the same file may or may not be recognised (with a guard the text is suppressed either way)
            opt.append(i not in seen_refs and tag not in guards)
        elif "guard" in kind and tag in guards:
            slots.append([])
            opt.append(False)
        else:
            slots.append(tok)
            opt.append(False)
        seen_files.add(tag)
        seen_refs.add(i)
        if "guard" in kind:
            guards.add(tag)
    return slots, opt


def p_streams(slots, opt, k, refs, script):
    """All acceptable token streams of one case (the model's own first)."""
    alts = [[]]
    for n, (sl, op) in enumerate(zip(slots, opt)):
        choices = [sl] + ([["B%d_%s" % (k, refs[script[n]][3])]] if op else [])
        alts = [a + (["M%d" % n] if n else []) + c for a in alts for c in choices]
    return alts


def p_pattern(slots, opt, k, refs, script):
    """The acceptable streams as one pattern for harness/c10_cmp.py: `[opt]T` = T may be present or absent."""
    o = []
    for n, (sl, op) in enumerate(zip(slots, opt)):
        o += (["M%d" % n] if n else []) + sl + (["[opt]B%d_%s" % (k, refs[script[n]][3])] if op else [])
    return o


def p_split(toks, nslots):
    """Token stream of a case -> list of slots, or None when the M markers are not all there in order."""
    out, cur, want = [], [], 1
    for t in toks:
        if t[0] == "M" and t[1:].isdigit():
            if t != "M%d" % want:
                return None
            out.append(cur)
            cur, want = [], want + 1
        else:
            cur.append(t)
    out.append(cur)
    return out if len(out) == nslots else None


def p_sig(kind, refs, script, slots, opt, st, got, k, undef):
    kd = kind + ("|guard-undefined-between" if undef else "")
    if st != 0:
        return "%s|%s" % (kd, "crash" if isinstance(st, int) and st < 0 else "rejected")
    gs = p_split(got or [], len(script))
    if gs is None:
        return "%s|garbled" % kd
    for n, (sl, op, g) in enumerate(zip(slots, opt, gs)):
        tag = refs[script[n]][3]
        own = ["B%d_%s" % (k, tag)]
        if g == sl or (op and g == own):
            continue
        earlier = [refs[i][3] for i in script[:n]]
        if n == 0:
            rel = "first-inclusion"
        elif tag not in earlier:
            rel = "different-files"
        elif script[n] in script[:n]:
            rel = "same-file-same-spelling"
        else:
            rel = "same-file-other-spelling"
        if not g:
            dev = "file-not-included"
        elif g == own:
            dev = "file-included-again"
        elif len(g) == 1 and g[0].startswith("B%d_" % k):
            dev = "earlier-file-included-instead" if g[0][len("B%d_" % k):] in earlier else "other-file-included"
        else:
            dev = "wrong-tokens"
        return "%s|%s|%s" % (kd, rel, dev)
    return "%s|garbled" % kd


def p_build_tree(wd, kind, indices):
    """The real tree under wd/w.  -> real path of w"""
    shutil.rmtree(wd, ignore_errors=True)
    w = os.path.join(os.path.realpath(os.path.dirname(wd)), os.path.basename(wd), "w")
    for d in P_DIRS.values():
        os.makedirs(w + d[2:], exist_ok=True)
    for l, t in P_DIRLINKS.items():
        os.symlink(t, w + l[2:])
    for k in indices:
        for tag, d in P_DIRS.items():
            with open("%s%s/c%d.h" % (w, d[2:], k), "w") as f:
                f.write(p_header(kind, tag, k))
        for l, t in P_FILELINKS.items():
            os.symlink(t.replace("#", str(k)), w + l[2:].replace("#", str(k)))
    return w


def p_run(argv0, w, cfg, src_text, gcc):
    label, cwd, pdir, name, inc = cfg
    with open(w + P_DIRS[pdir][2:] + "/main.c", "w") as f:
        f.write(src_text)
    name, inc = name.replace("@W@", w), inc.replace("@W@", w)
    if gcc:
        argv = GCC + ["-I" + inc, name]
    else:
        argv = [argv0, "-cc1", "-E", "-I" + inc, "-cc1-input", name, name]
    return core.run_limited(argv, cwd=w + cwd[2:], timeout=30)


def p_task(args):
    chibicc, wd, ci, kind, tier, part, nparts, undef, deadline = args
    cfg = P_CONFIGS[ci]
    refs = p_refs(cfg[2], 4 if tier != "quick" else 3)
    scripts = p_scripts(tier, refs)
    if undef:       # the guard of the first file #undef'd before every later reference: short references only
        scripts = [s for s in scripts if all(refs[i][2] <= 2 for i in s)]
    scripts = scripts[part::nparts]
    res = {"n": 0, "judged": 0, "disagree": 0, "disagree_ex": None, "viol": {}, "runs": 0, "different_files": 0,
           "same_file_other_spelling": 0, "same_file_same_spelling": 0, "impl_defined_slots": 0,
           "chibicc_includes_again": 0, "chain_diff": 0, "timeouts": 0, "cut": 0, "undef": 0}
    w = p_build_tree(wd, kind, range(P_BATCH))
    vfs = p_vfs(range(P_BATCH))
    mfiles = {}
    for k in range(P_BATCH):
        for tag, d in P_DIRS.items():
            mfiles["%s/c%d.h" % (d, k)] = p_header(kind, tag, k)
    vfs.files = mfiles
    ppath = P_DIRS[cfg[2]] + "/main.c"
    confirmed = {}      # class seen in the batch -> [confirmed alone as that class, went another way alone]

    def run(texts, gcc):
        def runner(src, opts, cwd):
            res["runs"] += 1
            with open(src) as f:
                return p_run(chibicc, w, cfg, f.read(), gcc)
        return run_batch(runner, wd, texts, name="batch.c")

    for batch in core.chunks(scripts, P_BATCH):
        if time.time() > deadline:
            res["cut"] = 1
            break
        items = []
        for k, sc in enumerate(batch):
            slots, opt = p_accept(kind, refs, sc, k, undef)
            items.append((sc, k, slots, opt))
        texts = [p_case_text(refs, sc, k, w, undef) for sc, k, _, _ in items]
        # model: textual inclusion over the VFS, files identified by what the spelling resolves to
        mtexts = [p_case_text(refs, sc, k, "/w", undef) for sc, k, _, _ in items]
        mfiles[ppath] = "".join("S%d\n%s" % (k, t) for k, t in enumerate(mtexts)) + "S%d\n" % len(mtexts)
        exp_all = segments(" ".join(M.Cpp(mfiles, [P_DIRS["r"]], vfs=vfs).run(ppath)), len(mtexts))
        r_c = run(texts, False)
        r_g = run(texts, True)
        for (sc, k, slots, opt), txt, exp, (sc_, tc, ec), (sg, tg, eg) in zip(items, texts, exp_all, r_c, r_g):
            res["n"] += 1
            if sg == "timeout" or sc_ == "timeout":     # load on the machine, never a verdict (nor an oracle disagreement)
                res["timeouts"] += 1
                continue
            first = p_streams(slots, opt, k, refs, sc)[0]
            if exp != first or sg != 0 or tg != exp:
                res["disagree"] += 1
                res["disagree_ex"] = res["disagree_ex"] or (cfg[0], kind, txt, first, exp, tg if sg == 0 else "rejected: " + eg)
                continue
            res["judged"] += 1
            tags = [refs[i][3] for i in sc]
            for n in range(1, len(sc)):
                res["different_files" if tags[n] not in tags[:n] else "same_file_same_spelling" if sc[n] in sc[:n]
                    else "same_file_other_spelling"] += 1
            res["impl_defined_slots"] += sum(opt)
            ok = p_streams(slots, opt, k, refs, sc)
            if sc_ == 0 and tc in ok:
                if tc != ok[0]:
                    res["chibicc_includes_again"] += 1
                continue
            # deviating inside the batch: the case alone decides.  After CONFIRM cases of one class (as seen in the
            # batch) that all went the same way alone, the batch verdict is counted without another process.
            pre = p_sig(kind, refs, sc, slots, opt, sc_, tc, k, undef) if sc_ == 0 else None
            hist = confirmed.get(pre)
            if hist and sum(hist) >= CONFIRM and 0 in hist:
                sig = pre if hist[1] == 0 else "%s|differs-after-other-headers-were-read" % kind
                res["chain_diff"] += hist[1] != 0
                res["viol"][sig][0] += 1
                continue
            (sa, ta, ea), = run([txt], False)
            if sa == "timeout":
                res["timeouts"] += 1
                res["judged"] -= 1
                continue
            if sa != 0 and any("//" in refs[i][1] for i in sc):
                # `//` inside a header name is undefined (6.4.7p3): an implementation may refuse the directive; when it
                # accepts the name as a path (chibicc and gcc do) the files it names are judged like all others
                res["undef"] += 1
                res["judged"] -= 1
                continue
            if sa == 0 and ta in ok:
                res["chain_diff"] += 1
                sig = "%s|differs-after-other-headers-were-read" % kind
                alone = False
                if pre:
                    confirmed.setdefault(pre, [0, 0])[1] += 1
            else:
                sig = p_sig(kind, refs, sc, slots, opt, sa, ta, k, undef)
                alone = True
                sc_, tc, ec = sa, ta, ea
                if pre:
                    confirmed.setdefault(pre, [0, 0])[0 if sig == pre else 1] += 1
            v = res["viol"].setdefault(sig, [0, None])
            v[0] += 1
            size = len(txt) + (0 if alone else 100000)
            if v[1] is None or size < v[1][0]:
                if alone:       # stand-alone rendering with index 0
                    sl0, op0 = p_accept(kind, refs, sc, 0, undef)
                    v[1] = (size, ci, kind, (0,), p_case_text(refs, sc, 0, "@W@", undef), p_pattern(sl0, op0, 0, refs, sc),
                            [t.replace("B%d_" % k, "B0_") for t in (tc or [])], str(sc_), ec[-300:],
                            [(refs[i][0], refs[i][1].replace("#", "0"), refs[i][3]) for i in sc])
                else:           # the whole batch is the reproducer
                    whole = "".join("S%d\n%s" % (j, p_case_text(refs, s2, k2, "@W@", undef)) for j, (s2, k2, _, _) in enumerate(items))
                    allexp = []
                    for (s2, k2, sl2, op2) in items:
                        allexp += ["S%d" % k2] + p_pattern(sl2, op2, k2, refs, s2)
                    v[1] = (size, ci, kind, tuple(range(len(items))), whole + "S%d\n" % len(items),
                            allexp + ["S%d" % len(items)], ["<stream of the whole batch>"], str(sc_), ec[-300:],
                            [(refs[i][0], refs[i][1].replace("#", str(k)), refs[i][3]) for i in sc])
    shutil.rmtree(wd, ignore_errors=True)
    return res


P_REPLAY = r"""TOP=$(pwd -P); W=$TOP/w
while read tgt name; do mkdir -p "$(dirname "w/$name")"; ln -sfn "$tgt" "w/$name"; done < links.txt
sed "s|@W@|$W|g" main.tmpl > "w/$(cat primary.txt)"
NAME=$(sed "s|@W@|$W|g" name.txt); INC=$(sed "s|@W@|$W|g" inc.txt)
cd "w/$(cat cwd.txt)" || exit 0
$CHIBICC -cc1 -E "-I$INC" -cc1-input "$NAME" "$NAME" > $TOP/got.txt 2> $TOP/err.txt || exit 1
cd $TOP
python3 $VERIF/harness/c10_cmp.py got.txt expected.txt || exit 1
exit 0"""


def p_replay_files(ci, kind, indices, main, pattern):
    label, cwd, pdir, name, inc = P_CONFIGS[ci]
    fl = {"main.tmpl": main, "primary.txt": P_DIRS[pdir][3:] + "/main.c\n" if P_DIRS[pdir] != "/w" else "main.c\n",
          "cwd.txt": (cwd[3:] or ".") + "\n", "name.txt": name + "\n", "inc.txt": inc + "\n"}
    links = ["%s %s" % (t, l[3:]) for l, t in P_DIRLINKS.items()]
    for k in indices:
        for tag, d in P_DIRS.items():
            fl["w%s/c%d.h" % (d[2:], k)] = p_header(kind, tag, k)
        links += ["%s %s" % (t.replace("#", str(k)), l[3:].replace("#", str(k))) for l, t in P_FILELINKS.items()]
    fl["links.txt"] = "\n".join(links) + "\n"
    fl["expected.txt"] = " ".join(pattern) + "\n"      # `[opt]T`: T may be present or absent (see harness/c10_cmp.py)
    return fl


def p_selfcheck(ctx):
    """The model's path resolution against the kernel's, on the real tree (all references of all configurations)."""
    wd = os.path.join(ctx.work, "d2_selfcheck")
    w = p_build_tree(wd, "plain", (0,))
    n = 0
    v = p_vfs()
    for label, cwd, pdir, name, inc in P_CONFIGS:
        real_cwd = os.path.realpath(w + cwd[2:])
        m = v.lookup("/", cwd)
        if m is None or w + m[0][2:] != real_cwd:
            raise core.HarnessError("part D2: model and kernel disagree on directory %s: %s / %s" % (cwd, m, real_cwd))
        for what, target in ((name, P_DIRS[pdir] + "/main.c"), (inc, P_DIRS["r"])):
            open(w + P_DIRS[pdir][2:] + "/main.c", "a").close()
            real = os.path.realpath(os.path.join(real_cwd, what.replace("@W@", w)))
            if real != w + target[2:]:
                raise core.HarnessError("part D2: configuration %s: %s is %s, not %s" % (label, what, real, target))
    for pdir in ("st", "r"):
        for form, sp, lvl, tag in p_refs(pdir, 4):
            base = P_DIRS[pdir] if form == "q" else P_DIRS["r"]
            real = os.path.realpath(os.path.join(w + base[2:], sp.replace("#", "0").replace("@W@", w)))
            if real != "%s%s/c0.h" % (w, P_DIRS[tag][2:]) or not os.path.isfile(real):
                raise core.HarnessError("part D2: model and kernel disagree on %s from %s: model %s, kernel %s"
                                        % (sp, base, tag, real))
            n += 1
    # and no reference was missed: every candidate spelling the model calls dangling does not exist either
    for base in (P_DIRS["st"], P_DIRS["r"]):
        for k in range(3):
            for seq in itertools.product(P_COMPS, repeat=k):
                if seq and seq[0] == "":
                    continue
                for leaf in ("c0.h", "ln0.h"):
                    sp = "/".join(seq + (leaf,))
                    if (v.lookup_file(base, sp) is not None) != os.path.isfile(os.path.join(w + base[2:], sp)):
                        raise core.HarnessError("part D2: model and kernel disagree on the existence of %s from %s" % (sp, base))
                    n += 1
    shutil.rmtree(wd, ignore_errors=True)
    return n


def part_d2(ctx):
    full = ctx.tier != "quick"
    nsc = p_selfcheck(ctx)
    configs = range(len(P_CONFIGS) if full else P_NQUICK)
    kinds = [("once", False), ("guard", False), ("plain", False)]
    if full:
        kinds += [("once+guard", False), ("guard", True)]
    per = 3 if not full else 6
    tasks = []
    for ci in configs:
        for kind, undef in kinds:
            for j in range(per):
                tasks.append((ctx.chibicc, os.path.join(ctx.work, "d2_%d_%s%d_%d" % (ci, kind.replace("+", ""), undef, j)),
                              ci, kind, ctx.tier, j, per, undef, ctx.deadline - 15))
    keys = ["n", "judged", "disagree", "runs", "different_files", "same_file_other_spelling", "same_file_same_spelling",
            "impl_defined_slots", "chibicc_includes_again", "chain_diff", "timeouts", "undef"]
    agg = dict.fromkeys(keys, 0)
    dis = None
    for r in core.pmap(p_task, tasks):
        for k in keys:
            agg[k] += r[k]
        if r["cut"] and ctx.exhaustive:
            ctx.incomplete("part D2: deadline reached; the cases judged so far are reported")
        dis = dis or r["disagree_ex"]
        for sig, (cnt, ex) in sorted(r["viol"].items()):
            size, ci, kind, indices, main, pattern, got, st, err, rdesc = ex
            fl = p_replay_files(ci, kind, indices, main, pattern)
            fl["observed.txt"] = "status=%s\n%s\n%s\n" % (st, " ".join(got), err)
            ctx.violation("C10|reinclude-path|" + sig,
                          "re-inclusion and path spelling: every copy of the header is of kind '%s'; %s; -I%s; references %s; "
                          "expected %s, got %s (status %s)"
                          % (kind, P_CONFIGS[ci][0], P_CONFIGS[ci][4],
                             ", ".join("%s -> copy in %s" % (('"%s"' if f == "q" else "<%s>") % sp, P_DIRS[t]) for f, sp, t in rdesc),
                             " ".join(pattern) if len(indices) == 1 else "(whole batch)",
                             " ".join(got), st),
                          files=fl, replay=P_REPLAY)
            for _ in range(cnt - 1):
                ctx.violation("C10|reinclude-path|" + sig, "")
    if dis:
        raise core.HarnessError("part D2: model and gcc disagree: %s, kind %s\n%s\nslot model %s, Cpp model %s, gcc %s" % dis)
    if (agg["judged"] < 1000 or not agg["different_files"] or not agg["same_file_other_spelling"]
            or not agg["same_file_same_spelling"] or not agg["impl_defined_slots"]):
        raise core.HarnessError("part D2 vacuous: %s" % agg)
    if agg["timeouts"]:
        ctx.incomplete("part D2: %d runs timed out (machine load) and were not judged" % agg["timeouts"])
    nrefs = {pd: len(p_refs(pd, 4 if full else 3)) for pd in ("st", "r")}
    ctx.cover(d2_cases=agg["n"], d2_judged=agg["judged"], d2_process_runs=agg["runs"],
              d2_later_references_to_a_different_file=agg["different_files"],
              d2_later_references_same_file_other_spelling=agg["same_file_other_spelling"],
              d2_later_references_same_file_same_spelling=agg["same_file_same_spelling"],
              d2_implementation_defined_slots_either_accepted=agg["impl_defined_slots"],
              d2_of_which_chibicc_included_again=agg["chibicc_includes_again"],
              d2_chained_vs_alone_differences=agg["chain_diff"], oracle_disagreements=agg["disagree"],
              skipped_undefined=agg["undef"],
              traces_validated_against_impl=agg["judged"], d2_model_vs_kernel_path_lookups=nsc,
              d2_configurations=[c[0] + "|-I" + c[4] for c in P_CONFIGS[:len(configs)]],
              d2_header_kinds=[k + ("+guard-undefined-between" if u else "") for k, u in kinds],
              d2_references_per_primary_dir=nrefs,
              d2_rule="one basename with a different copy in 7 directories (w, w/r, w/r/s, w/r/s/t, w/r/o, w/r/o/q, w/r/o/t; "
                      "s/lk -> ../o/q, s/t/up -> ../.., ln.h -> c.h file links); references = (quote form relative to the "
                      "primary file's directory | angle form relative to the only -I directory = project root) x every "
                      "spelling of <= %s components over {., .., empty (//), r, s, t, o, q, lk, up} + c.h|ln.h that exists, "
                      "+ 3 absolute paths; scripts = %s; x header kind x configuration (compiler cwd, name of the primary "
                      "file, -I spelling).  Files are identified by what the spelling resolves to (model VFS = kernel = gcc): "
                      "different files are never conflated; the same file under another spelling with #pragma once only may "
                      "be included once or twice" % (
                          "4 (angle: 3)" if full else "3 (angle: 2)",
                          "ordered pairs with one member <= 2 components (all pairs <= 3), triples of quote-form references <= 2"
                          if full else "ordered pairs with one member <= 2 components"))
    refs = p_refs("st", 2)
    i = next(n for n, r in enumerate(refs) if r[:2] == ("q", "c#.h"))
    j = next(n for n, r in enumerate(refs) if r[:2] == ("q", "../../c#.h"))
    ctx.sample({"part": "D2", "configuration": P_CONFIGS[0][0], "header_kind": "once",
                "main": p_case_text(refs, (i, j), 0, "/w"), "expected": p_streams(*p_accept("once", refs, (i, j), 0, False), 0, refs, (i, j))})


# =====================================================================================================
# Part D3: re-inclusion HISTORIES (the shortcut tables are state: every step sequence, not only 2-3 inclusions)
# =====================================================================================================
# One header h.h (kind: its own #ifndef guard | #if !defined(G) guard | #pragma once | both | nothing) and a wrapper w.h that
# includes it.  A script = EVERY sequence of <= 5 (thorough 6) steps over
#   I  #include "h.h"          U  #undef G          D  #define G
#   S  #include "./h.h"  (the same file through another spelling)          W  #include "w.h"  (w.h: W1 #include "h.h" W2)
# with at least one inclusion; a marker token follows every step.  Expected = plain textual inclusion (model + gcc -E).
# With #pragma once a file reached through ANOTHER spelling may or may not be recognised (implementation-defined): the
# streams of the model keyed by file identity (= gcc) and of the model keyed by the spelled path are both accepted.
H_STEPS = {"I": '#include "h%d.h"\n', "U": "#undef G%d\n", "D": "#define G%d\n", "S": '#include "./h%d.h"\n',
           "W": '#include "w%d.h"\n'}
H_STEPNAME = {"I": "include-same-spelling", "S": "include-other-spelling", "W": "include-through-another-header"}
H_KINDS = {"guard": "#ifndef G%d\n#define G%d\nB%d\n#endif\n",
           "guard-if-not-defined": "#if !defined(G%d)\n#define G%d\nB%d\n#endif\n",
           "once": "#pragma once\nB%d\n",
           "once+guard": "#pragma once\n#ifndef G%d\n#define G%d\nB%d\n#endif\n",
           "plain": "B%d\n"}
H_BATCH = 150


def h_scripts(maxlen):
    for n in range(1, maxlen + 1):
        for sc in itertools.product("IUDSW", repeat=n):
            if any(c in "ISW" for c in sc):
                yield "".join(sc)


def h_header(kind, k):
    t = H_KINDS[kind]
    return t % ((k,) * t.count("%d"))


def h_wrapper(k):
    return 'W1\n#include "h%d.h"\nW2\n' % k


def h_main(script, k):
    return "".join(H_STEPS[c] % k + "M%d\n" % (n + 1) for n, c in enumerate(script))


def h_slots(toks, n):
    """Token stream of one case -> n slots (tokens before M1, between M1 and M2, ...), or None."""
    out, cur, want = [], [], 1
    for t in toks:
        if t[0] == "M" and t[1:].isdigit():
            if t != "M%d" % want:
                return None
            out.append(cur)
            cur, want = [], want + 1
        else:
            cur.append(t)
    return out if len(out) == n and not cur else None


def h_sig(kind, script, exps, st, got, k):
    """Class of a deviation: the step at which the stream first leaves every accepted stream, the state of the guard
    macro there, and what had happened to the file before (read / an inclusion that produced nothing / #undef)."""
    if st != 0:
        return "%s|%s" % (kind, "crash" if isinstance(st, int) and st < 0 else "rejected")
    gs = h_slots(got or [], len(script))
    if gs is None:
        return "%s|garbled" % kind
    best = None
    for exp in exps:
        es = h_slots(exp, len(script))
        n = next((i for i in range(len(script)) if es[i] != gs[i]), len(script))
        if best is None or n > best[0]:
            best = (n, es)
    n, es = best
    if n >= len(script):
        return "%s|garbled" % kind
    body = "B%d" % k
    gdef, read, skipped, undef_after_skip = False, False, False, False
    for i in range(n):
        c = script[i]
        if c == "U":
            undef_after_skip = undef_after_skip or skipped
            gdef = False
        elif c == "D":
            gdef = True
        else:
            if body in es[i]:
                read = True
                gdef = gdef or "guard" in kind
            else:
                skipped = True
    earlier = ("inclusion-skipped" + ("+guard-undefined-since" if undef_after_skip else "") if skipped else
               "read" if read else "nothing")
    want, have = es[n].count(body), gs[n].count(body)
    dev = ("file-not-included" if have < want else "file-included-again" if have > want else "wrong-tokens")
    # (the form of the deviating step - same spelling / other spelling / through w.h - is in the description only: the
    # tables are per file, one root cause shows under every form)
    return "%s|G-%s|earlier=%s|%s" % (kind, "defined" if gdef else "undefined", earlier, dev)


def h_task(args):
    chibicc, wd, cases, deadline = args
    inc = os.path.join(wd, "inc")
    res = {"n": 0, "judged": 0, "disagree": 0, "viol": {}, "disagree_ex": None, "runs": 0, "impl_defined": 0,
           "chibicc_includes_again": 0, "suppressed_expected": 0, "reread_after_skip_expected": 0, "cut": 0, "timeouts": 0}
    for batch in core.chunks(cases, H_BATCH):
        if time.time() > deadline:
            res["cut"] = 1
            break
        shutil.rmtree(wd, ignore_errors=True)
        os.makedirs(inc)
        files = {}
        texts = []
        for k, (kind, script) in enumerate(batch):
            files["/inc/h%d.h" % k] = h_header(kind, k)
            files["/inc/w%d.h" % k] = h_wrapper(k)
            texts.append(h_main(script, k))
        for name, txt in files.items():
            with open(wd + name, "w") as f:
                f.write(txt)
        allf = dict(files)
        allf["/inc/b.c"] = "".join("S%d\n%s" % (k, t) for k, t in enumerate(texts)) + "S%d\n" % len(texts)
        exp_id = segments(" ".join(M.Cpp(allf, ["/inc"]).run("/inc/b.c")), len(texts))
        exp_sp = segments(" ".join(M.Cpp(allf, ["/inc"], once_by_spelling=True).run("/inc/b.c")), len(texts))
        r_c = run_batch(lambda s, o, c: cc_E(chibicc, s, o, c), inc, texts, opts=["-I" + inc])
        r_g = run_batch(lambda s, o, c: gcc_E(s, o, c), inc, texts, opts=["-I" + inc])
        res["runs"] += 1
        for k, ((kind, script), txt, e1, e2, (sc, tc, ec), (sg, tg, eg)) in enumerate(zip(batch, texts, exp_id, exp_sp, r_c, r_g)):
            res["n"] += 1
            if sg == "timeout" or sc == "timeout":
                res["timeouts"] += 1
                continue
            if sg != 0 or tg != e1:
                res["disagree"] += 1
                res["disagree_ex"] = res["disagree_ex"] or (kind, script, txt, e1, tg if sg == 0 else "rejected: " + eg[-200:])
                continue
            res["judged"] += 1
            body = "B%d" % k
            ninc = sum(c in "ISW" for c in script)
            if e1.count(body) < ninc:
                res["suppressed_expected"] += 1
            # an inclusion that yields nothing, later one that yields the body again (the file must be re-read)
            es = h_slots(e1, len(script))
            empty = [i for i, c in enumerate(script) if c in "ISW" and body not in es[i]]
            if empty and any(body in es[i] for i in range(empty[0] + 1, len(script))):
                res["reread_after_skip_expected"] += 1
            exps = [e1] + ([e2] if e2 != e1 else [])
            res["impl_defined"] += len(exps) - 1
            if sc == 0 and tc in exps:
                res["chibicc_includes_again"] += tc != e1
                continue
            sig = h_sig(kind, script, exps, sc, tc, k)
            v = res["viol"].setdefault(sig, [0, None])
            v[0] += 1
            size = len(script) * 1000 + len(txt)
            if v[1] is None or size < v[1][0]:
                ren = lambda toks: [re.sub(r"^([BG])%d$" % k, r"\g<1>0", t) for t in (toks or [])]
                v[1] = (size, kind, script, h_header(kind, 0), h_wrapper(0), h_main(script, 0), ren(e1), ren(e2), ren(tc),
                        str(sc), ec[-300:])
    shutil.rmtree(wd, ignore_errors=True)
    return res


H_REPLAY = ("$CHIBICC -cc1 -E -Iinc -cc1-input inc/m.c inc/m.c > got.txt 2> err.txt || exit 1\n"
            "python3 $VERIF/harness/c10_cmp.py got.txt expected.txt && exit 0\n"
            "python3 $VERIF/harness/c10_cmp.py got.txt expected_alt.txt && exit 0\nexit 1")


def part_d3(ctx):
    L = 5 if ctx.tier == "quick" else 6
    scripts = list(h_scripts(L))
    cases = [(kind, sc) for kind in H_KINDS for sc in scripts]
    ntask = core.NPROC * 2
    tasks = [(ctx.chibicc, os.path.join(ctx.work, "d3_%d" % i), cases[i::ntask], ctx.deadline - 15) for i in range(ntask)]
    keys = ["n", "judged", "disagree", "runs", "impl_defined", "chibicc_includes_again", "suppressed_expected",
            "reread_after_skip_expected", "timeouts"]
    agg = dict.fromkeys(keys, 0)
    dis = None
    viol = {}
    for r in core.pmap(h_task, tasks):
        for k in keys:
            agg[k] += r[k]
        if r["cut"] and ctx.exhaustive:
            ctx.incomplete("part D3: deadline reached; the histories judged so far are reported")
        dis = dis or r["disagree_ex"]
        for sig, (cnt, ex) in r["viol"].items():         # the shortest history of each class over all shards
            v = viol.setdefault(sig, [0, ex])
            v[0] += cnt
            if ex[0] < v[1][0]:
                v[1] = ex
    if True:
        for sig, (cnt, ex) in sorted(viol.items()):
            size, kind, script, h0, w0, m0, e1, e2, got, st, err = ex
            ctx.violation("C10|reinclude-history|" + sig,
                          "re-inclusion history %s (I include h.h, S include ./h.h, W include w.h which includes h.h, U #undef G, "
                          "D #define G) on a header of kind '%s':\n%s\nexpected (textual inclusion) %s%s, got %s (status %s)"
                          % (" ".join(script), kind, h0, " ".join(e1),
                             " or (file not recognised under its other spelling) " + " ".join(e2) if e2 != e1 else "",
                             " ".join(got), st),
                          files={"inc/h0.h": h0, "inc/w0.h": w0, "inc/m.c": m0, "expected.txt": " ".join(e1) + "\n",
                                 "expected_alt.txt": " ".join(e2) + "\n",
                                 "observed.txt": "status=%s\n%s\n%s\n" % (st, " ".join(got), err)},
                          replay=H_REPLAY)
            for _ in range(cnt - 1):
                ctx.violation("C10|reinclude-history|" + sig, "")
    if dis:
        raise core.HarnessError("part D3: model and gcc disagree: kind %s script %s\n%s\nmodel %s gcc %s" % dis)
    if agg["timeouts"]:
        ctx.incomplete("part D3: %d cases timed out (machine load) and were not judged" % agg["timeouts"])
    elif ctx.exhaustive and (agg["judged"] < 1000 or not agg["suppressed_expected"] or not agg["reread_after_skip_expected"]
                             or not agg["impl_defined"]):
        raise core.HarnessError("part D3 vacuous: %s" % agg)
    ctx.cover(d3_cases=agg["n"], d3_judged=agg["judged"], d3_scripts=len(scripts), d3_header_kinds=list(H_KINDS),
              d3_max_steps=L, d3_expected_some_inclusion_suppressed=agg["suppressed_expected"],
              d3_expected_reread_after_a_skipped_inclusion=agg["reread_after_skip_expected"],
              d3_implementation_defined_either_accepted=agg["impl_defined"],
              d3_of_which_chibicc_included_again=agg["chibicc_includes_again"],
              oracle_disagreements=agg["disagree"], traces_validated_against_impl=agg["judged"],
              d3_rule="re-inclusion histories: every sequence of <= %d steps over {#include \"h.h\", #include \"./h.h\", "
                      "#include \"w.h\" (which includes h.h), #undef G, #define G} with >= 1 inclusion x header kind "
                      "{#ifndef guard, #if !defined() guard, #pragma once, both, nothing}; expected = plain textual "
                      "inclusion (model and gcc -E agree); under #pragma once the same file through another spelling may "
                      "be included once or again" % L)
    ctx.sample({"part": "D3", "kind": "guard", "script": "I I U I", "header": h_header("guard", 0), "main": h_main("IIUI", 0)})


# =====================================================================================================
# Part E: -include / -D / -U orders
# =====================================================================================================
E_FILES = {
    "a.h": "#define X 5\nA X\n",
    "b.h": "#undef X\nB X\n",
    "g.h": "#ifndef GG\n#define GG\nGT X\n#endif\n",
    "inc/c.h": "#ifdef X\nC X\n#else\nCN\n#endif\n#define Y 7\n",
    "m.c": "M X Y\n#ifdef X\nDEF\n#else\nUNDEF\n#endif\n#if X == 2\nTWO\n#endif\n#include \"g.h\"\n#include \"a.h\"\nZ X\n"
           "W F(8)\n#ifdef F\nFDEF\n#endif\n",
}
E_OPTS = [("D", "X", None, 0), ("D", "X", "2", 0), ("D", "X", "3", 1), ("D", "Y", "X", 0), ("D", "F(x)", "x+Y", 0),
          ("U", "X", None, 0),
          ("U", "X", None, 1), ("include", "a.h"), ("include", "b.h"), ("include", "g.h"), ("include", "c.h")]


E_LABELS = {"M": "object-like-macro-use", "DEF": "#ifdef", "UNDEF": "#ifdef", "TWO": "#if-value", "GT": "guarded-header",
            "A": "-include-or-#include-a.h", "B": "-include-b.h", "C": "-include-via-I", "CN": "-include-via-I",
            "Z": "macro-after-headers", "W": "function-like-macro-from-D", "FDEF": "#ifdef-function-like-macro-from-D"}


def e_argv(seq):
    o = []
    for s in seq:
        if s[0] == "include":
            o += ["-include", s[1]]
        elif s[0] == "D":
            a = s[1] + ("=" + s[2] if s[2] is not None else "")
            o += ["-D", a] if s[3] else ["-D" + a]
        else:
            o += ["-U", s[1]] if s[3] else ["-U" + s[1]]
    return o


def e_as_file(seq):
    """The same directives written in a file: all -D/-U in order, then the -include files in order, then m.c."""
    o = []
    for s in seq:
        if s[0] == "D":
            o.append("#define %s %s" % (s[1], "1" if s[2] is None else s[2]))
        elif s[0] == "U":
            o.append("#undef " + s[1])
    for s in seq:
        if s[0] == "include":
            o.append('#include "%s"' % s[1])
    return "\n".join(o + ['#include "m.c"']) + "\n"


def e_task(args):
    chibicc, wd, seqs = args
    shutil.rmtree(wd, ignore_errors=True)
    os.makedirs(os.path.join(wd, "inc"))
    for k, v in E_FILES.items():
        with open(os.path.join(wd, k), "w") as f:
            f.write(v)
    res = {"n": 0, "judged": 0, "disagree": 0, "ref_rejected": 0, "viol": {}, "disagree_ex": None, "outcomes": set()}
    vfiles = {"/w/" + k: v for k, v in E_FILES.items()}
    for seq in seqs:
        for ipos in (0, 1):
            res["n"] += 1
            eq = e_as_file(seq)
            vf = dict(vfiles)
            vf["/w/eq.c"] = eq
            try:
                exp = M.Cpp(vf, ["/w/inc"]).run("/w/eq.c")
            except (M.Undef, M.Reject):
                res["ref_rejected"] += 1
                continue
            opts = e_argv(seq)
            opts = ["-Iinc"] + opts if ipos == 0 else opts + ["-Iinc"]
            sg, og, eg = core.run_limited(GCC + opts + ["m.c"], cwd=wd, timeout=20)
            if sg != 0:
                res["ref_rejected"] += 1
                continue
            if lex(og) != exp:
                res["disagree"] += 1
                res["disagree_ex"] = res["disagree_ex"] or (opts, exp, lex(og))
                continue
            res["judged"] += 1
            res["outcomes"].add(tuple(exp))
            sc, oc, ec = core.run_limited([chibicc, "-cc1", "-E"] + opts + ["-cc1-input", "m.c", "m.c"], cwd=wd, timeout=20)
            got = lex(oc) if sc == 0 else None
            # differential: the same directives written in a file, through the same binary
            with open(os.path.join(wd, "eq.c"), "w") as f:
                f.write(eq)
            s2, o2, e2 = core.run_limited([chibicc, "-cc1", "-E", "-Iinc", "-cc1-input", "eq.c", "eq.c"], cwd=wd, timeout=20)
            got2 = lex(o2) if s2 == 0 else None
            if got == exp and got2 == exp:
                continue
            if got != exp:
                dev = ("rejected" if got is None else "differs-from-directives-in-file" if got2 == exp else "wrong-tokens")
            else:
                dev = "directives-in-file-wrong"
            # the line of m.c / the -include'd header in which the first difference appears names the construct
            bad = got if got != exp else got2
            at = "whole-unit"
            if bad is not None:
                i = next((j for j in range(min(len(exp), len(bad))) if exp[j] != bad[j]), min(len(exp), len(bad)))
                at = next((E_LABELS[t] for t in reversed(exp[:i + 1]) if t in E_LABELS), "start")
            sig = "%s|%s" % (at, dev)
            v = res["viol"].setdefault(sig, [0, None])
            v[0] += 1
            if v[1] is None or len(opts) < len(v[1][0]):
                v[1] = (opts, exp, got if got != exp else got2, str(sc), ec[-300:], eq)
    shutil.rmtree(wd, ignore_errors=True)
    return res


E_REPLAY = ("$CHIBICC -cc1 -E $(cat opts.txt) -cc1-input m.c m.c > got.txt 2> err.txt || exit 1\n" + CMP + "\n"
            "$CHIBICC -cc1 -E -Iinc -cc1-input eq.c eq.c > got.txt 2> err.txt || exit 1\n" + CMP + "\nexit 0")


def part_e(ctx):
    L = 3 if ctx.tier == "quick" else 4
    seqs = [s for n in range(0, L + 1) for s in itertools.product(E_OPTS, repeat=n)]
    ntask = core.NPROC * 2
    tasks = [(ctx.chibicc, os.path.join(ctx.work, "e_%d" % i), seqs[i::ntask]) for i in range(ntask)]
    agg = {"n": 0, "judged": 0, "disagree": 0, "ref_rejected": 0}
    outcomes = set()
    dis = None
    for r in core.pmap(e_task, tasks):
        for k in agg:
            agg[k] += r[k]
        outcomes |= r["outcomes"]
        dis = dis or r["disagree_ex"]
        for sig, (cnt, ex) in sorted(r["viol"].items()):
            opts, exp, got, st, err, eq = ex
            fl = dict(E_FILES)
            fl.update({"eq.c": eq, "opts.txt": " ".join(opts) + "\n", "expected.txt": " ".join(exp) + "\n",
                       "observed.txt": "status=%s\n%s\n%s\n" % (st, " ".join(got or []), err)})
            ctx.violation("C10|options|" + sig,
                          "options %s: expected %s, got %s (status %s)" % (" ".join(opts), " ".join(exp), " ".join(got or []), st),
                          files=fl, replay=E_REPLAY)
            for _ in range(cnt - 1):
                ctx.violation("C10|options|" + sig, "")
    if dis:
        raise core.HarnessError("part E: model and gcc disagree on %s: model %s gcc %s" % dis)
    if agg["judged"] < 500 or len(outcomes) < 10:
        raise core.HarnessError("part E vacuous: %s" % agg)
    ctx.cover(e_option_sequences=agg["n"], e_judged=agg["judged"], e_distinct_expected_streams=len(outcomes),
              oracle_disagreements=agg["disagree"], ref_rejected=agg["ref_rejected"],
              traces_validated_against_impl=agg["judged"], e_max_options=L)
    ctx.sample({"part": "E", "options": e_argv((("D", "X", "2", 0), ("include", "b.h"), ("U", "X", None, 1))),
                "same_directives_in_file": e_as_file((("D", "X", "2", 0), ("include", "b.h"), ("U", "X", None, 1)))})


# =====================================================================================================
# Part E2: -D / -U over PREDEFINED macro names
# =====================================================================================================
# The set of predefined macros is READ FROM THE BINARY UNDER TEST: candidates = every identifier-like string in the
# executable + every name `gcc -dM -E` lists; a probe file (`#ifdef N` / `@ k N @`) run through `chibicc -cc1 -E` twice
# (other file name, directory, line offsets, order and mtime the second time) tells which are defined, their
# replacement tokens, and which are dynamic (__LINE__, __COUNTER__, __FILE__, __TIMESTAMP__ ...).  Names of 6.10.8
# (`__STDC*`, __DATE__, __TIME__, __FILE__, __LINE__: #define/#undef of them is undefined, 6.10.8p2) and dynamic or
# function-like ones are not judged.  Case = option sequence over {-DN, -DN=7, -UN} (+ `-D N=7`, `-U N`, `-DU=N`):
# every single option over EVERY judged predefined name; every sequence of <= 2 (thorough 3) over an alphabet of one
# name per class {not reserved (linux/unix kind), value 1, other integer value, non-integer value, empty value} + a
# user name.  Observed through a body that, for each name concerned, expands it, tests #ifdef and #if N == 7.
# Expected = the same requests as #define/#undef lines at the top of the file: (1) model over the probed table,
# (2) the same binary on that file; and the model is validated for every case by gcc with gcc's own table (-dM).
E2_USER = "C10U"
E2_RESERVED = re.compile(r"^(__STDC.*|__DATE__|__TIME__|__FILE__|__LINE__|defined|__cplusplus)$")
E2_INT = re.compile(r"^(0[xX][0-9a-fA-F]+|\d+)[uUlL]*$")


def e2_probe(chibicc, wd, names, variant):
    """-> {name: replacement tokens} for the names that are defined, as seen by the binary itself."""
    order = list(names) if not variant else list(reversed(names))
    d = os.path.join(wd, "probe%d" % variant)
    os.makedirs(d, exist_ok=True)
    src = os.path.join(d, "p.c" if not variant else "other_name.c")
    with open(src, "w") as f:
        f.write("\n" * (3 * variant))
        idx = {n: i for i, n in enumerate(names)}
        for rnd in (0, 1):          # every name twice in one file: __COUNTER__ / __LINE__ kinds give two values
            for n in order:
                f.write("#ifdef %s\n@ %d %s @\n#endif\n" % (n, 2 * idx[n] + rnd, n))
    if variant:
        os.utime(src, (86400 * 400, 86400 * 400))
    st, out, err = cc_E(chibicc, src, cwd=d)
    if st != 0:
        raise core.HarnessError("part E2: probe of the predefined macros failed: %s" % err[-300:])
    res = {}
    toks = lex(out)         # token-wise: the printer may break lines inside a probe (tokens made by builtin macros)
    i = 0
    while i < len(toks):
        if toks[i] != "@" or i + 1 >= len(toks) or not toks[i + 1].isdigit():
            raise core.HarnessError("part E2: unexpected token %r in the probe output" % toks[i])
        j = toks.index("@", i + 1)
        k = int(toks[i + 1])
        res.setdefault(names[k // 2], [None, None])[k % 2] = toks[i + 2:j]
        i = j + 1
    return {n: (v[0] if v[0] == v[1] else ["<dynamic>", str(variant)]) for n, v in res.items()}


def e2_gcc_table(wd):
    st, out, err = core.run_limited(["gcc", "-E", "-dM", "-nostdinc", "-x", "c", "/dev/null"], cwd=wd, timeout=60)
    if st != 0:
        raise core.HarnessError("part E2: gcc -dM failed")
    obj, fn = {}, set()
    for line in out.split("\n"):
        m = re.match(r"#define (\w+)(\(?)(.*)$", line)
        if m:
            if m.group(2):
                fn.add(m.group(1))
            else:
                obj[m.group(1)] = TOK.findall(m.group(3))
    return obj, fn


def e2_expand(toks, table, hide=frozenset()):
    out = []
    for t in toks:
        if t in table and t not in hide:
            out += e2_expand(table[t], table, hide | {t})
        else:
            out.append(t)
    return out


def e2_apply(table, seq):
    t = dict(table)
    for kind, name, val in seq:
        if kind == "U":
            t.pop(name, None)
        else:
            t[name] = TOK.findall("1" if val is None else val)
    return t


def e2_body(names, intlike):
    o = []
    for i, n in enumerate(names):
        o.append("P%d %s Q%d\n#ifdef %s\nD%d\n#else\nN%d\n#endif\n" % (i, n, i, n, i, i))
        if n in intlike:
            o.append("#if %s == 7\nE%d\n#endif\n" % (n, i))
    return "".join(o)


def e2_expect(names, intlike, table):
    """None when the model does not define the result (the #if operand is not a single integer / identifier)."""
    out = []
    for i, n in enumerate(names):
        out += ["P%d" % i] + e2_expand([n], table) + ["Q%d" % i, ("D%d" if n in table else "N%d") % i]
        if n in intlike:
            v = e2_expand([n], table)
            if len(v) != 1 or not (E2_INT.match(v[0]) or re.match(r"^[A-Za-z_]\w*$", v[0])):
                return None
            if E2_INT.match(v[0]) and int(re.match(r"^(0[xX][0-9a-fA-F]+|\d+)", v[0]).group(1), 0) == 7:
                out.append("E%d" % i)
    return out


def e2_argv(seq, sep):
    o = []
    for kind, name, val in seq:
        a = name + ("=" + val if val is not None else "")
        o += ["-" + kind, a] if sep else ["-" + kind + a]
    return o


def e2_textual(seq):
    return "".join("#undef %s\n" % n if k == "U" else "#define %s %s\n" % (n, "1" if v is None else v) for k, n, v in seq)


def e2_task(args):
    chibicc, wd, cases, ctab, gtab, static, deadline = args
    os.makedirs(wd, exist_ok=True)
    res = {"n": 0, "judged": 0, "gcc_disagree": 0, "gcc_disagree_ex": None, "undef": 0, "viol": {}, "outcomes": set(),
           "model_mismatch": 0, "model_mismatch_ex": None, "cut": 0, "timeouts": 0, "predefined_changed": 0}
    for seq, sep, alpha in cases:
        if time.time() > deadline:
            res["cut"] = 1
            break
        res["n"] += 1
        names = list(alpha) + [n for _, n, _ in seq if n not in alpha]
        for _, n, v in seq:
            if v is not None and re.match(r"^[A-Za-z_]\w*$", v) and v not in names:
                names.append(v)

        def intlike_in(tab):
            return {n for n in names if n not in tab or (len(tab[n]) == 1 and E2_INT.match(tab[n][0]))}
        intlike = intlike_in(ctab) & intlike_in(gtab)
        body = e2_body(names, intlike)
        exp_c = e2_expect(names, intlike, e2_apply(ctab, seq))
        exp_g = e2_expect(names, intlike, e2_apply(gtab, seq))
        if exp_c is None or exp_g is None:
            res["undef"] += 1
            continue
        with open(os.path.join(wd, "m.c"), "w") as f:
            f.write(body)
        with open(os.path.join(wd, "eq.c"), "w") as f:
            f.write(e2_textual(seq) + body)
        opts = e2_argv(seq, sep)
        sg, og, eg = core.run_limited(GCC + opts + ["m.c"], cwd=wd, timeout=30)
        sc, oc, ec = core.run_limited([chibicc, "-cc1", "-E"] + opts + ["-cc1-input", "m.c", "m.c"], cwd=wd, timeout=30)
        s2, o2, e2 = core.run_limited([chibicc, "-cc1", "-E", "-cc1-input", "eq.c", "eq.c"], cwd=wd, timeout=30)
        if "timeout" in (sg, sc, s2):
            res["timeouts"] += 1
            continue
        if sg != 0 or lex(og) != exp_g:
            # the model's reading of this option sequence is not confirmed by the reference: not judged
            res["gcc_disagree"] += 1
            res["gcc_disagree_ex"] = res["gcc_disagree_ex"] or (opts, exp_g, lex(og) if sg == 0 else "rejected: " + eg[-200:])
            continue
        res["judged"] += 1
        res["outcomes"].add(tuple(exp_c))
        if any(n in ctab for _, n, _ in seq):
            res["predefined_changed"] += 1
        got = lex(oc) if sc == 0 else None
        got2 = lex(o2) if s2 == 0 else None
        if got == exp_c and got2 == exp_c:
            continue
        if got == got2:
            # both forms agree with each other but not with the model built from the probed table: the probe (not the
            # option handling) is in doubt - reported as a harness problem, never as a violation
            res["model_mismatch"] += 1
            res["model_mismatch_ex"] = res["model_mismatch_ex"] or (opts, exp_c, got)
            continue
        if got != exp_c:
            dev = "rejected" if got is None else "differs-from-directives-in-file" if got2 == exp_c else "wrong-tokens"
            bad = got
        else:
            dev, bad = "directives-in-file-wrong", got2
        # the request responsible: the last one naming the macro at whose probe lines the first difference appears
        who = "whole-unit"
        if bad is not None:
            i = next((j for j in range(min(len(exp_c), len(bad))) if exp_c[j] != bad[j]), min(len(exp_c), len(bad)))
            at = next((t for t in reversed(exp_c[:i + 1]) if re.match(r"^[PDNE]\d+$", t) and t[0] == "P"), None)
            if at is not None:
                n = names[int(at[1:])]
                req = [k for k, nn, v in seq if nn == n]
                who = ("-%s-of-%s" % (req[-1], "predefined-name" if n in ctab else "user-name" if n not in static else "name")
                       if req else "name-not-in-the-options")
        sig = "predefined-macro|%s|%s" % (who, dev)
        v = res["viol"].setdefault(sig, [0, None])
        v[0] += 1
        size = len(seq) * 1000 + len(" ".join(opts))
        if v[1] is None or size < v[1][0]:
            v[1] = (size, opts, exp_c, bad, str(sc), ec[-300:], e2_textual(seq) + body, body)
    shutil.rmtree(wd, ignore_errors=True)
    return res


E2_REPLAY = ("$CHIBICC -cc1 -E $(cat opts.txt) -cc1-input m.c m.c > got.txt 2> err.txt || exit 1\n" + CMP + "\n"
             "$CHIBICC -cc1 -E -cc1-input eq.c eq.c > got.txt 2> err.txt || exit 1\n" + CMP + "\nexit 0")


def part_e2(ctx):
    wd = ctx.mkdir("e2")
    gtab, gfn = e2_gcc_table(wd)
    with open(ctx.chibicc, "rb") as f:
        data = f.read()
    cand = sorted({m.decode() for m in re.findall(rb"[A-Za-z_][A-Za-z0-9_]{1,63}", data)} | set(gtab) | gfn | {E2_USER})
    p0, p1 = e2_probe(ctx.chibicc, wd, cand, 0), e2_probe(ctx.chibicc, wd, cand, 1)
    if set(p0) != set(p1):
        raise core.HarnessError("part E2: the two probes see different sets of predefined macros: %s" % sorted(set(p0) ^ set(p1)))
    if E2_USER in p0:
        raise core.HarnessError("part E2: the user name %s is predefined" % E2_USER)
    dynamic = sorted(n for n in p0 if p0[n] != p1[n])
    reserved = sorted(n for n in p0 if E2_RESERVED.match(n))
    selfref = sorted(n for n in p0 if p0[n] == [n])           # function-like or self-referential: no visible value
    judged = sorted(n for n in p0 if n not in dynamic and n not in reserved and n not in selfref)
    ctab = {n: p0[n] for n in p0 if n not in dynamic and n not in selfref}
    if len(judged) < 5:
        raise core.HarnessError("part E2 vacuous: only %d predefined macros found by probing %d candidates: %s"
                                % (len(judged), len(cand), judged))
    classes = [("not-reserved-name", lambda n, v: not n.startswith("_")),
               ("value-1", lambda n, v: n.startswith("_") and v == ["1"]),
               ("other-integer-value", lambda n, v: n.startswith("_") and len(v) == 1 and E2_INT.match(v[0]) and v != ["1"]),
               ("non-integer-value", lambda n, v: n.startswith("_") and v and not (len(v) == 1 and E2_INT.match(v[0]))),
               ("empty-value", lambda n, v: n.startswith("_") and not v)]
    alpha, alpha_cls = [], {}
    for cname, pred in classes:
        for n in judged:
            if pred(n, p0[n]):
                alpha.append(n)
                alpha_cls[cname] = n
                break
    alpha_all = alpha + [E2_USER]
    forms = lambda n: [("D", n, None), ("D", n, "7"), ("U", n, None)]
    opts = [o for n in alpha_all for o in forms(n)] + [("D", E2_USER, alpha[0])]
    L = 2 if ctx.tier == "quick" else 3
    cases = []
    for n in judged:                                  # every single request over every judged predefined name
        for o in forms(n):
            for sep in (False, True):
                cases.append(((o,), sep, ()))
    for k in range(0, L + 1):
        for seq in itertools.product(opts, repeat=k):
            cases.append((seq, False, tuple(alpha_all)))
    static = set(ctab)
    ntask = core.NPROC * 2
    tasks = [(ctx.chibicc, os.path.join(wd, "t%d" % i), cases[i::ntask], ctab, gtab, static, ctx.deadline - 15)
             for i in range(ntask)]
    keys = ["n", "judged", "gcc_disagree", "undef", "model_mismatch", "timeouts", "predefined_changed"]
    agg = dict.fromkeys(keys, 0)
    outcomes, viol, gex, mex = set(), {}, None, None
    for r in core.pmap(e2_task, tasks):
        for k in keys:
            agg[k] += r[k]
        outcomes |= r["outcomes"]
        gex = gex or r["gcc_disagree_ex"]
        mex = mex or r["model_mismatch_ex"]
        if r["cut"] and ctx.exhaustive:
            ctx.incomplete("part E2: deadline reached; the option sequences judged so far are reported")
        for sig, (cnt, ex) in r["viol"].items():
            v = viol.setdefault(sig, [0, ex])
            v[0] += cnt
            if ex[0] < v[1][0]:
                v[1] = ex
    for sig, (cnt, ex) in sorted(viol.items()):
        size, o, exp, got, st, err, eq, body = ex
        ctx.violation("C10|options|" + sig,
                      "options %s must act like the lines\n%sat the top of the file: expected %s, got %s (status %s)"
                      % (" ".join(o), eq[:len(eq) - len(body)], " ".join(exp), " ".join(got or []), st),
                      files={"m.c": body, "eq.c": eq, "opts.txt": " ".join(o) + "\n", "expected.txt": " ".join(exp) + "\n",
                             "observed.txt": "status=%s\n%s\n%s\n" % (st, " ".join(got or []), err)},
                      replay=E2_REPLAY)
        for _ in range(cnt - 1):
            ctx.violation("C10|options|" + sig, "")
    if mex:
        raise core.HarnessError("part E2: options and directives-in-file agree with each other but not with the model "
                                "built from the probed macro table (%d cases), e.g. %s: model %s, chibicc %s" % ((agg["model_mismatch"],) + mex))
    if agg["gcc_disagree"] > agg["n"] // 10:
        raise core.HarnessError("part E2: model and gcc disagree on %d of %d cases, e.g. %s: model %s gcc %s"
                                % ((agg["gcc_disagree"], agg["n"]) + gex))
    if agg["timeouts"]:
        ctx.incomplete("part E2: %d cases timed out (machine load) and were not judged" % agg["timeouts"])
    elif ctx.exhaustive and (agg["judged"] < 200 or len(outcomes) < 10 or not agg["predefined_changed"]):
        raise core.HarnessError("part E2 vacuous: %s" % agg)
    ctx.cover(e2_cases=agg["n"], e2_judged=agg["judged"], e2_distinct_expected_streams=len(outcomes),
              e2_cases_changing_a_predefined_macro=agg["predefined_changed"],
              e2_candidate_names_probed=len(cand), e2_predefined_found=len(p0), e2_predefined_judged=judged,
              e2_not_judged_6_10_8_names=reserved, e2_not_judged_dynamic=dynamic, e2_not_judged_no_visible_value=selfref,
              e2_sequence_alphabet=alpha_cls, e2_max_options=L, oracle_disagreements=agg["gcc_disagree"],
              skipped_undefined=agg["undef"], traces_validated_against_impl=agg["judged"],
              e2_rule="predefined macro set probed from the binary (identifier-like strings of the executable + gcc -dM "
                      "names through #ifdef probes); -DN / -DN=7 / -UN (joined and separate argument) over every judged "
                      "predefined name; every sequence of <= %d requests over one predefined name per class + a user "
                      "name (+ -DU=N); expected = the same #define/#undef lines at the top of the file (model over the "
                      "probed table and the binary itself on that file; model validated per case against gcc with gcc's "
                      "-dM table); names of 6.10.8 and dynamic macros are not judged" % L)
    ctx.sample({"part": "E2", "options": e2_argv((("U", alpha[0], None), ("D", alpha[-1], "7")), False),
                "same_directives_in_file": e2_textual((("U", alpha[0], None), ("D", alpha[-1], "7"))),
                "body": e2_body([alpha[0], alpha[-1]], {alpha[0]})})


def run(ctx):
    import time
    quick = ctx.tier == "quick"
    parts = os.environ.get("C10_PARTS", "ABCDE")          # debugging aid only ("D" = D and D2; "D2," = exactly D2)
    n = int(os.environ.get("C10_N", 5))                  # full alphabet; C10_N=6 is ~25 M sequences (~80 CPU-minutes)
    plan = [("A", lambda: part_a(ctx, n, 0 if quick else 6, 3 if quick else 4, 4 if quick else 5, 1 if quick else 2,
                                       4, 4 if quick else 5)), ("B", lambda: part_b(ctx)),
            ("C", lambda: part_c(ctx)), ("C2", lambda: part_c2(ctx)), ("C3", lambda: part_c3(ctx)), ("D", lambda: part_d(ctx)), ("D2", lambda: part_d2(ctx)), ("D3", lambda: part_d3(ctx)),
            ("E", lambda: part_e(ctx)), ("E2", lambda: part_e2(ctx))]
    secs = {}
    # the cheap parts first so that a deadline can only cut the big sequence enumeration short
    for name, fn in sorted(plan, key=lambda p: p[0] == "A"):
        if name not in parts.split(",") if "," in parts else name[0] not in parts:
            continue
        if ctx.out_of_time(reserve=15):
            ctx.incomplete("part %s not run: deadline" % name)
            continue
        t = time.time()
        fn()
        secs[name] = round(time.time() - t, 1)
    ctx.cover(part_seconds=secs)
    ctx.assume("gcc -E -P -nostdinc (gcc 12) is the second oracle: a case is judged only when the Python model "
               "(models/c10_model.py) and gcc produce the same token stream")
    ctx.assume("#include_next in a file that was not found through the search chain (primary file: not judged; "
               "file found in the includer's directory: search starts at the head of the chain, as gcc and clang do)")
    ctx.assume("file identity of ONE header reached through two spellings under #pragma once is implementation-defined: "
               "part D does not judge it, part D2 accepts both 'included once' and 'included twice'; two DIFFERENT files "
               "are never the same file, whatever their spellings")
    ctx.assume("`//` inside a header name is undefined behaviour (6.4.7p3): never generated in the angle form (chibicc reads "
               "it as a comment and rejects the directive, gcc accepts it); in the quote form gcc, the model and chibicc "
               "all read the string as a path and the case is judged; a REJECTION of such a directive would be counted as "
               "skipped_undefined, not as a violation")
    ctx.assume("#if: right shift of negative values, signed overflow, out-of-range shifts, division by zero and "
               "character constants outside the basic set are not judged (skipped_undefined)")
