int f(void) { return y; }
