"""Twin-compile helper: one generated translation unit compiled by the chibicc under test and by gcc -O0
(the reference), both linked with a gcc-compiled driver that compares them.

In the unit, every external name is written FN(name); the unit is compiled with -DPFX=cc_ by chibicc and
-DPFX=ref_ by gcc (FN pastes PFX and the name).  The driver sees both sets.
"""
import os
from . import core

PRELUDE = "#define VP_CAT_(a,b) a##b\n#define VP_CAT(a,b) VP_CAT_(a,b)\n#define FN(x) VP_CAT(PFX,x)\n"

GCC_REF = ["gcc", "-O0", "-fwrapv", "-fno-strict-aliasing", "-w", "-std=gnu11", "-fno-builtin", "-fno-pie", "-fcommon"]
GCC_DRV = ["gcc", "-O1", "-w", "-std=gnu11", "-fno-pie"]


def cc_compile(ctx, src, obj, flags=(), cwd=None, timeout=120):
    """Compile with the chibicc under test: cc1 directly (signals visible), then `as`.
    Returns (ok, stage, status, stderr)."""
    asm = obj[:-2] + ".s" if obj.endswith(".o") else obj + ".s"
    st, out, err = core.run_limited([ctx.chibicc, "-cc1"] + list(flags) + ["-cc1-input", src, "-cc1-output", asm, src],
                                    cwd=cwd, timeout=timeout)
    if st != 0:
        return False, "cc1", st, err
    st, out, err = core.run_limited(["as", "-o", obj, asm], cwd=cwd, timeout=timeout)
    if st != 0:
        return False, "as", st, err
    return True, "", 0, ""


def ref_compile(src, obj, flags=(), cwd=None, timeout=300, opt=None):
    cmd = list(GCC_REF) + list(flags) + ["-c", "-o", obj, src]
    if opt:
        cmd[1] = opt
    st, out, err = core.run_limited(cmd, cwd=cwd, timeout=timeout)
    return st == 0, err


def twin_run(ctx, wd, name, unit_src, driver_src, cc_flags=(), ref_flags=(), run_timeout=120, extra_units=()):
    """Write <name>_u.c (unit) and <name>_d.c (driver) into wd, build both twins and the driver, link, run.
    Returns dict(status=..., stdout=..., stderr=..., stage=...) where status is
      'ok' (ran; see stdout), 'cc-fail' (chibicc rejected/crashed: stage, code, stderr), 'harness' (gcc side failed)."""
    os.makedirs(wd, exist_ok=True)
    u = os.path.join(wd, name + "_u.c")
    d = os.path.join(wd, name + "_d.c")
    with open(u, "w") as f:
        f.write(PRELUDE + unit_src)
    with open(d, "w") as f:
        f.write(driver_src)
    ok, stage, st, err = cc_compile(ctx, u, os.path.join(wd, name + "_cc.o"), ["-DPFX=cc_"] + list(cc_flags), cwd=wd)
    if not ok:
        return {"status": "cc-fail", "stage": stage, "code": st, "stderr": err, "unit": u}
    ok, err = ref_compile(u, os.path.join(wd, name + "_ref.o"), ["-DPFX=ref_"] + list(ref_flags), cwd=wd)
    if not ok:
        return {"status": "harness", "stage": "gcc-unit", "stderr": err, "unit": u}
    exe = os.path.join(wd, name + ".exe")
    st, out, err = core.run_limited(GCC_DRV + ["-o", exe, d, name + "_cc.o", name + "_ref.o"] + list(extra_units) +
                                    ["-no-pie", "-Wl,-z,noexecstack", "-lm"], cwd=wd, timeout=300)
    if st != 0:
        return {"status": "harness", "stage": "gcc-driver/link", "stderr": err, "unit": u}
    st, out, err = core.run_limited([exe], cwd=wd, timeout=run_timeout)
    return {"status": "ok", "code": st, "stdout": out, "stderr": err, "unit": u}
