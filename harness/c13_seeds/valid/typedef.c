typedef int T;
typedef T *PT;
T f(PT p) { T T = *p; return T; }
