#!/bin/sh
# Build a scratch copy of a chibicc tree (default /repo working tree) with the stock Makefile and run `make test`.
# usage: repotest.sh [srcdir] [make-target]
src=${1:-/repo}; tgt=${2:-test}
d=$(mktemp -d /tmp/repotest_XXXXXX)
trap 'rm -rf "$d"' EXIT INT TERM
rsync -a --exclude=.git --exclude='*.o' --exclude=/chibicc --exclude=/stage2 --exclude='*.exe' --exclude='/tmp*' "$src"/ "$d"/
cd "$d" && make -s -j16 chibicc >/dev/null 2>"$d/build.err" || { cat "$d/build.err"; echo "REPOTEST: BUILD FAILED"; exit 2; }
if make -j16 $tgt >"$d/test.log" 2>&1; then
  echo "REPOTEST: PASS ($(grep -c 'passed$' "$d/test.log") driver tests, $(grep -c '^OK$' "$d/test.log") OK files)"; exit 0
else
  tail -20 "$d/test.log"; echo "REPOTEST: FAIL"; exit 1
fi
