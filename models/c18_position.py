"""C18 position model and observers (python stdlib only; also copied into replay directories).

Model (independent of chibicc, works on the ORIGINAL bytes of each file):
  * physical line of a token = 1 + number of LF bytes before its first byte (a CR LF pair contains exactly one LF, so both
    line-ending styles are covered; a lone CR is not a line terminator for this property -> such files are not judged);
  * C11 5.1.1.2 phases 1-3 are replayed only as far as needed to know which bytes are inside comments, which physical
    lines form one logical line (backslash-newline) and which logical lines are directives;
  * C11 6.10.4: after `#line N ["f"]` (or the GNU form `# N "f"`) the line FOLLOWING the directive has presumed number N and
    the presumed file name is f; the effect ends with the file;  6.10.4p2: the line number of a token counts the new-line
    characters read in phase 1 up to that token, i.e. spliced new-lines count;
  * `__LINE__`/`__FILE__` written as a source token on physical line L: presumed line of L / presumed name there;
    an object-like macro `VPL<j>` whose body holds the probe reports the line/file of the (single-line) invocation.

Probe spelling understood by model and observers:  vp<K>(<line>, <file>);
"""
import os, re

BOM = b"\xef\xbb\xbf"


def phys_line(data, off):
    return 1 + data.count(b"\n", 0, off)


def has_lone_cr(data):
    return re.search(rb"\r(?!\n)", data) is not None


def logical_lines(data):
    """Phases 1-3 light: returns a list of logical lines, each a list of (char, original offset); comments become one
    space carrying the offset of their first byte; backslash-newline removed (CR LF counts as newline)."""
    i = 3 if data.startswith(BOM) else 0
    n = len(data)
    # phase 1+2: characters with offsets, CRLF -> LF, splices removed
    chars = []
    while i < n:
        c = data[i]
        if c == 0x5c:  # backslash
            if data[i + 1:i + 2] == b"\n":
                i += 2; continue
            if data[i + 1:i + 3] == b"\r\n":
                i += 3; continue
        if c == 0x0d and data[i + 1:i + 2] == b"\n":
            chars.append(("\n", i)); i += 2; continue
        chars.append((chr(c), i)); i += 1
    if chars and chars[-1][0] != "\n":
        chars.append(("\n", n))
    # phase 3: comments and literals
    out, cur = [], []
    k, m = 0, len(chars)
    while k < m:
        c, off = chars[k]
        nxt = chars[k + 1][0] if k + 1 < m else ""
        if c == "/" and nxt == "*":
            j = k + 2
            while j + 1 < m and not (chars[j][0] == "*" and chars[j + 1][0] == "/"):
                j += 1
            cur.append((" ", off)); k = j + 2; continue
        if c == "/" and nxt == "/":
            j = k
            while j < m and chars[j][0] != "\n":
                j += 1
            cur.append((" ", off)); k = j; continue
        if c in "\"'":
            j = k + 1
            while j < m and chars[j][0] != c and chars[j][0] != "\n":
                j += 2 if chars[j][0] == "\\" else 1
            if j < m and chars[j][0] == c:        # a complete literal on this line: copied verbatim
                cur.extend(chars[k:j + 1]); k = j + 1
            else:                                  # stray quote: an ordinary character
                cur.append((c, off)); k += 1
            continue
        if c == "\n":
            out.append(cur); cur = []; k += 1; continue
        cur.append((c, off)); k += 1
    if cur:
        out.append(cur)
    return out


_probe = re.compile(r"\bvp(\d+)\s*\(")
_tok = re.compile(r"\bvp(\d+)\s*\(|\b(VPL\d+)\b")
_line = re.compile(r"^\s*#\s*(?:line\s+)?(\d+)(?:\s+\"([^\"]*)\")?\s*(?:\d+\s*)*$")
_incl = re.compile(r"^\s*#\s*include\s+\"([^\"]+)\"\s*$")
_defobj = re.compile(r"^\s*#\s*define\s+(VPL\d+)\s+(.*)$")
_dir = re.compile(r"^\s*#")


def scan(data, name):
    """Events of one file in source order:
       ("probe", pid, dict(file=name, phys=, pres=, presfile=, fphys=, fpres=, directive=bool, via=None|macro name))
       ("include", header name, physical line)"""
    ev = []
    delta, presfile, directive = 0, name, False
    objmacros = {}
    for ll in logical_lines(data):
        text = "".join(c for c, o in ll)
        if not ll:
            continue
        first = phys_line(data, ll[0][1])
        last = phys_line(data, ll[-1][1])
        if _dir.match(text):
            m = _line.match(text)
            if m:
                # the line following the directive (physical line last+1) is line N
                delta = int(m.group(1)) - (last + 1)
                if m.group(2) is not None:
                    presfile = m.group(2)
                directive = True
                continue
            m = _incl.match(text)
            if m:
                ev.append(("include", m.group(1), first))
                continue
            m = _defobj.match(text)
            if m:
                objmacros[m.group(1)] = [int(x) for x in _probe.findall(m.group(2))]
            continue
        for m in _tok.finditer(text):
            p = phys_line(data, ll[m.start()][1])
            info = dict(file=name, phys=p, pres=p + delta, presfile=presfile, fphys=first, fpres=first + delta,
                        directive=directive, via=None)
            if m.group(1) is not None:
                ev.append(("probe", int(m.group(1)), info))
            else:
                for pid in objmacros.get(m.group(2), []):
                    d = dict(info); d["via"] = m.group(2)
                    ev.append(("probe", pid, d))
    return ev


def expected(files, main="t.c"):
    """files: {name: bytes} all in one directory.  Returns the probes in translation order:
    [(pid, info)], following #include "..." recursively (each inclusion scans the header afresh: line 1, own name)."""
    res = []

    def walk(name, depth):
        if depth > 8:
            raise ValueError("include recursion")
        for e in scan(files[name], name):
            if e[0] == "probe":
                res.append((e[1], e[2]))
            else:
                walk(e[1], depth + 1)
    walk(main, 0)
    return res


# --------------------------------------------------------------------------------------------------------------
# observers
def norm(path, base=None):
    """File names are compared as files, not as spellings: ./h.h == h.h; an absolute name inside `base` (the directory the
    compiler ran in) is the same file as the relative one."""
    p = os.path.normpath(path)
    if base and os.path.isabs(p):
        b = os.path.normpath(base)
        if p.startswith(b + "/"):
            p = p[len(b) + 1:]
    return p


def c_string_value(tok):
    """Spelling of a simple narrow string literal -> value (only the escapes a file name can need)."""
    if not (tok.startswith('"') and tok.endswith('"')):
        return None
    return re.sub(r"\\(.)", r"\1", tok[1:-1])


def observe_E(tokens):
    """tokens: re-lexed -E output.  Returns [(pid, line:int|None, file:str|None)] in output order."""
    res = []
    for i, t in enumerate(tokens):
        m = re.match(r"^vp(\d+)$", t)
        if not m or tokens[i + 1:i + 2] != ["("]:
            continue
        a = tokens[i + 2:i + 7]
        if len(a) == 5 and a[1] == "," and a[3] == ")" and re.match(r"^\d+$", a[0]):
            res.append((int(m.group(1)), int(a[0]), c_string_value(a[2])))
        else:
            res.append((int(m.group(1)), None, None))
    return res


def observe_diag(err):
    """First diagnostic of a compiler run -> (file, line, following text up to the end of the diagnostic's echo) or None.
    Only the location is read: `<file>:<line>:` optionally followed by a column; wording is ignored."""
    lines = err.splitlines()
    for i, l in enumerate(lines):
        m = re.match(r"^(.+?):(\d+):(?:\d+:)?(.*)$", l)
        if m:
            return m.group(1), int(m.group(2)), m.group(3) + "\n" + "\n".join(lines[i + 1:i + 4])
    return None


def observe_S(asm):
    """Returns (filetable {number: name}, mentions {pid: (fileno, line)} taken from the nearest preceding .loc of the
    first instruction mentioning symbol vp<pid>, strays: list of (pid_before|0, pid_after|0, fileno, line) for every
    .loc record, so that the caller can check that records between two mentions belong to one of the two statements)."""
    table, mentions, records = {}, {}, []
    cur = None
    lastpid = 0
    pending = []
    for l in asm.splitlines():
        s = l.strip()
        m = re.match(r"^\.file\s+(\d+)\s+\"(.*)\"", s)
        if m:
            table[int(m.group(1))] = m.group(2)
            continue
        m = re.match(r"^\.loc\s+(\d+)\s+(\d+)", s)
        if m:
            cur = (int(m.group(1)), int(m.group(2)))
            pending.append(cur)
            continue
        if s.startswith(".") or s.endswith(":") or not s:
            continue
        m = re.search(r"\bvp(\d+)\b", s)
        if m:
            pid = int(m.group(1))
            if pid not in mentions:
                mentions[pid] = cur
            for r in pending:
                records.append((lastpid, pid, r[0], r[1]))
            pending = []
            lastpid = pid
    for r in pending:
        records.append((lastpid, 0, r[0], r[1]))
    return table, mentions, records


def line_class(obs, info):
    """Name the observed line number relative to the named candidates (class, not value)."""
    if obs is None:
        return "unreadable"
    cands = [("expected", info["pres"])]
    if info["directive"]:
        cands += [("physical-line", info["phys"]), ("expected+1", info["pres"] + 1)]
    if info["fphys"] != info["phys"]:
        cands += [("first-physical-line", info["fpres"])]
        if info["directive"]:
            cands += [("first-physical-line+1", info["fpres"] + 1), ("unadjusted-first-physical-line", info["fphys"])]
    for d in (1, -1, 2, -2):
        cands.append(("expected%+d" % d, info["pres"] + d))
    for name, v in cands:
        if obs == v:
            return name
    return "other-line"


if __name__ == "__main__":
    # replay helper:  python3 c18_position.py E|D|S|X <observed file> <pid> <spec>   ; exit 1 iff the observation is
    # not one of the acceptable (file, line) pairs given as  file:line[,file:line]
    import sys
    mode, path, spec = sys.argv[1], sys.argv[2], sys.argv[4]
    pid = int(sys.argv[3].split("-")[-1])
    ok = set()
    for part in spec.split(","):
        f, l = part.rsplit(":", 1)
        ok.add((norm(f), int(l)))
    text = open(path, errors="replace").read()
    got = None
    if mode == "E":
        import pplex
        for p, l, f in observe_E(pplex.lex(text)):
            if p == pid:
                got = (norm(f, os.getcwd()) if f is not None else None, l)
    elif mode == "X":
        for ln in text.splitlines():
            w = ln.split(" ", 2)
            if len(w) == 3 and w[0] == str(pid):
                got = (norm(w[2], os.getcwd()), int(w[1]))
    elif mode == "D":
        d = observe_diag(text)
        if d:
            got = (norm(d[0], os.getcwd()), d[1])
    elif mode == "S":
        table, mentions, records = observe_S(text)
        r = mentions.get(pid)
        if r:
            got = (norm(table.get(r[0], "?"), os.getcwd()), r[1])
    elif mode == "R":      # every .loc record between the instructions of probes a and b (argument "a-b") is acceptable
        a = int(sys.argv[3].split("-")[0])
        table, mentions, records = observe_S(text)
        bad = [(norm(table.get(f, "?"), os.getcwd()), l) for x, y, f, l in records
               if (x, y) == (a, pid) and (norm(table.get(f, "?"), os.getcwd()), l) not in ok]
        print("records between vp%d and vp%d that belong to neither statement:" % (a, pid), bad)
        sys.exit(1 if bad else 0)
    print("observed", got, "acceptable", sorted(ok))
    sys.exit(0 if got in ok else 1)
