struct B { int a : 3; int : 2; int b : 4; int : 0; int c; };
int f(struct B *p) { return p->b + p->c; }
