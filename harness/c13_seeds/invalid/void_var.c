void x;
