double f(int i, float x, long double l) {
  char c = (char)i;
  unsigned long u = (unsigned long)x;
  _Bool b = l;
  return (double)c + u + b + (float)i / x - l;
}
