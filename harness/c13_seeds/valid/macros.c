#define N 3
#define ADD(a, b) ((a) + (b))
#define STR(x) #x
#define CAT(a, b) a##b
int CAT(v, 1) = ADD(N, 2);
char *s = STR(hello);
#undef N
