struct S { int a; union { int b; char c; }; int d; };
struct S s = {.a = 1, .b = 2, .d = 3};
