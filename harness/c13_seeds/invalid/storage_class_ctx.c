int f(static int x);
