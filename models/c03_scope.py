"""C03 part (c): lexical scoping.  One name x is declared in several scopes as an ordinary identifier (object / typedef
name / enumeration constant), as a tag and as a label; every declaration gives x a distinct observable.  Probes after
every scope entry and exit record what x denotes there.  The model is the plain C11 6.2.1 rule: a use binds to the
declaration in the innermost enclosing scope that textually precedes it; ordinary identifiers, tags and labels are
separate name spaces.

Two families of programs (skeletons with declaration slots):

 chain   0 file scope > 1 parameter > 2 function body block > 3 for-init > 4 compound body of the for
         (parameter declarations and the outermost block of the body are ONE scope).
         Tag declaration kinds per level: definition  struct / union / enum
                                          sfwd / ufwd    `struct x;` - an INCOMPLETE type declared in that scope (hides an
                                                         outer x, 6.7.2.3p7), never completed there; at level 1 it is the
                                                         first mention `struct x *p` in the parameter list (6.7.2.3p8)
                                          sfwdc / ufwdc  `struct x;` ... completed LATER in the same scope, after the nested
                                                         scopes (which may define their own x) were closed
         a level-1 sfwd/ufwd may be completed by a level-2 definition (same scope).
 stmt    the scopes C99 added (6.8.4p3, 6.8.5p5: every selection / iteration statement is a block, and so is each of its
         substatements) and function prototype scope (6.2.1p4): x is declared at file scope, in the function body, inside
         the controlling expression (`sizeof(struct x {..})`, `sizeof(enum { x = .. })`) and inside the NON-compound body
         of if / while / do / for / switch; or in the parameter list of a function-pointer declarator / function
         declaration at block or file scope.  Probes in the condition, the body, the else branch / for increment and after
         the statement.

 point   POINT OF DECLARATION (C11 6.2.1p7: a tag is in scope right after the tag appears in the type specifier that declares
         it; an enumerator right after its defining enumerator - its own value expression still sees the enclosing
         declaration; any other identifier right after the completion of its declarator - an array bound inside the
         declarator sees the enclosing declaration, the initializer already sees the new object).  The chain skeleton with
         SELF-REFERENTIAL declaration kinds, i.e. probes INSIDE the declaration, at every level of the chain:
           objb      char x[REF + 1];                          REF (in the declarator) = enclosing x
           obji      char x[60 + L] = { sizeof(x) };           the initializer sees the new object (file scope: static)
           sobji     static char x[70 + L] = { sizeof(x) };    the same for a block-scope object of static storage duration
           objbi     char x[REF + 1] = { sizeof(x) };          both in one declarator (block, for-init)
           typedefb  typedef char x[REF + 1];
           enumrv    enum { x = REF + 1 };                     also as parameter `enum { x = REF + 1 } e`
           enumr3    enum { a = REF + 1, x = REF + 2, b = x + 3 };   earlier enumerator / own value: enclosing x; later one: new x
           pself     parameter char (*x)[REF + 1]              a parameter's own declarator sees the enclosing x
           pnext     parameters short x, char (*r)[sizeof(x) + 1]   a later parameter sees the earlier one
           structm / unionm   struct x { struct x *n; char c[..]; }   the member declaration sees the NEW (incomplete) type
         REF is sizeof(x), sizeof(*x) or x according to what the enclosing declaration is.  Every declaration carries an
         observable that depends on what its inside references bound to (sizeof x, x[0], the enumerator values, sizeof *r,
         sizeof *q->n, _Generic(q->n, struct x *)); it is read at every probe site where x denotes that declaration.
         In the stmt family the same kinds appear in type names of controlling expressions / non-compound bodies
         (`sizeof(enum { x = x + 1 })`, `sizeof(struct x { struct x *n; .. })`) and, for function prototype scope,
         tnext = `short x, __typeof__(x) *r` observed through _Generic on the function (pointer) type.

Observables of the binding of the tag x at a probe site (4 slots per site: ordinary, tag-size, tag-identity, tag-object):
 tag-size      sizeof(K x) (+ 1000 * sizeof(*q) for the pointer q declared next to the binding's own declaration) - only
               where the model says the type is complete at that point of the text
 tag-identity  pointer-to-incomplete compatibility: next to every struct/union declaration at level L a pointer
               `K x *qL` is declared; the probe is the sum over all visible qL of _Generic(qL, K x *: 1 << L, default: 0)
 tag-object    two local objects of the type, written through the last byte, assigned and read back (the sizes used by
               code generation for the objects and the copy must be those of the type the use binds to)
"""
import itertools

UNSET = -7777
NSLOT = 4
MAXSITES = 11
NS = NSLOT * MAXSITES
SLOT_NAMES = ["ordinary", "tag", "tag-identity", "tag-object"]
COPIED = 77

BASE = {"struct": "struct", "union": "union", "enum": "enum", "sfwd": "struct", "ufwd": "union", "sfwdc": "struct", "ufwdc": "union",
        "structm": "struct", "unionm": "union"}
# self-referential declaration kinds (point of declaration, 6.2.1p7)
SELF_ORD = ("objb", "obji", "sobji", "objbi", "typedefb", "enumrv", "enumr3", "pself", "pnext", "tnext")
SELF_TAG = ("structm", "unionm")
NEEDS_OUTER = ("objb", "objbi", "typedefb", "enumrv", "enumr3", "pself")        # kinds with a reference to the ENCLOSING x
SEES_SELF = {"obji": "initializer", "sobji": "initializer", "objbi": "initializer", "enumr3": "later-enumerator", "pnext": "later-parameter",
             "tnext": "later-parameter"}                                        # kinds with a reference to the NEW x
OUT_REF = {"objb": "array-bound", "objbi": "array-bound", "typedefb": "array-bound", "enumrv": "value-expression",
           "enumr3": "value-expression", "pself": "array-bound"}
CAT = {"obj": "obj", "typedef": "typedef", "enumr": "enumr", "objb": "obj", "obji": "obj", "sobji": "obj", "objbi": "obj", "typedefb": "typedef",
       "enumrv": "enumr", "enumr3": "enumr", "pself": "ptr", "pnext": "obj", "tnext": "obj"}
REF = {"obj": "sizeof(%s)", "typedef": "sizeof(%s)", "enumr": "%s", "ptr": "sizeof(*%s)"}


class Invalid(Exception):
    pass
FWD = ("sfwd", "ufwd", "sfwdc", "ufwdc")
LATE = ("sfwdc", "ufwdc")
DEFS = ("struct", "union", "enum")


def value(level, kind):
    """the observable of a declaration: sizeof for obj/typedef/struct/union, the constant for enumr, 4 for enum tags"""
    if kind == "obj":
        return 2 if level == 1 else 10 + level          # parameter: short x
    if kind == "typedef": return 20 + level
    if kind == "enumr": return 30 + level
    if kind == "struct": return 40 + level
    if kind == "union": return 50 + level
    if kind == "enum": return 4
    if kind == "structm": return 88 + 8 * level        # struct x { struct x *n; char c[8 * (10 + level)]; }
    if kind == "unionm": return 160 + 8 * level        # union x { union x *n; char c[8 * (20 + level)]; }
    raise ValueError(kind)


def selfnum(kind, level, outnum):
    """what a reference to the NEW declaration yields (sizeof / value); outnum = what a reference to the enclosing x yields"""
    if kind in ("objb", "objbi", "typedefb", "pself", "enumrv"): return outnum + 1
    if kind == "obji": return 60 + level
    if kind == "sobji": return 70 + level
    if kind == "enumr3": return outnum + 2
    if kind in ("pnext", "tnext"): return 2
    return value(level, kind)


def obsval(kind, level, outnum, innum):
    """the observable of a declaration; outnum / innum = what the references before / after its point of declaration yield"""
    n = selfnum(kind, level, outnum)
    if kind in ("obji", "sobji", "objbi"): return n + 1000 * innum
    if kind == "enumr3": return n + 1000 * (outnum + 1) + 1000000 * (innum + 3)
    if kind == "pnext": return n + 1000 * (innum + 1)
    if kind == "tnext": return innum
    return n


class D:
    """one declared entity"""
    def __init__(self, level, kind):
        self.level, self.kind = level, kind
        self.base = BASE.get(kind, kind)
        self.complete = kind not in FWD
        self.size = value(level, kind if kind in SELF_TAG else self.base) if self.complete and kind in BASE else None
        self.q = None           # level of the pointer object declared next to it
        self.selfref = kind in SELF_TAG

    def name(self):
        return "L%s.%s" % (self.level, self.kind)

    # ordinary identifiers: out = the declaration x denotes just before this one enters scope
    def setup_ord(self, out):
        k, l = self.kind, self.level
        if k in NEEDS_OUTER and out is None:
            raise Invalid("no enclosing declaration for the reference inside %s" % self.name())
        self.out = out
        self.cat = CAT[k]
        self.outnum = out.num if out and k in NEEDS_OUTER else None
        self.num = selfnum(k, l, self.outnum)
        self.val = obsval(k, l, self.outnum, self.num)

    def deviations(self):
        """observable -> (which inside reference, what it bound to) for the wrong bindings of the inside references that have a
        predictable effect (naming of signatures only)"""
        k, l, out, alt = self.kind, self.level, self.out, {}
        if k in ("enumrv", "enumr3"):           # value expression binds to the enumerator being defined (0, type int)
            o2 = 0 if out.cat == "enumr" else 4 if out.cat in ("obj", "typedef") else None
            if o2 is not None and k == "enumrv":
                alt[o2 + 1] = (OUT_REF[k], "self", "enclosing")
            elif o2 is not None:            # a = REF + 1 still sees the enclosing x (the enumerator being defined there is a)
                alt[o2 + 2 + 1000 * (self.outnum + 1) + 1000000 * (o2 + 2 + 3)] = (OUT_REF[k], "self", "enclosing")
        if k in SEES_SELF and out is not None:  # reference after the point of declaration binds to the enclosing declaration
            if k == "enumr3": i2 = out.num if out.cat == "enumr" else None
            elif k == "tnext": i2 = 4 if out.cat == "enumr" else 0
            else: i2 = out.num if out.cat in ("obj", "typedef") else 4 if out.cat == "enumr" else 8
            if i2 is not None:
                alt[obsval(k, l, self.outnum, i2)] = (SEES_SELF[k], "enclosing", "self")
        return alt

    def ref(self, X):
        return REF[self.cat] % X

    def obs(self, X, i):
        k, l = self.kind, self.level
        if k in ("obji", "sobji", "objbi"): return "sizeof(%s) + 1000 * %s[0]" % (X, X)
        if k == "enumr3": return "%s + 1000 * a%d_%d + 1000000 * b%d_%d" % (X, l, i, l, i)
        if k == "pnext": return "sizeof(%s) + 1000 * sizeof(*r%d)" % (X, i)
        return self.ref(X)

    def constant(self):
        return self.kind not in ("obji", "sobji", "objbi")       # x[0] is not a constant expression

    def text(self, X, i, static=""):
        """the declaration; without the final `;` for parameters and for-init"""
        k, l = self.kind, self.level
        R = self.out.ref(X) if k in NEEDS_OUTER else None
        if l == 1:
            if k == "obj": return "short %s" % X
            if k == "pself": return "char (*%s)[%s + 1]" % (X, R)
            if k == "pnext": return "short %s, char (*r%d)[sizeof(%s) + 1]" % (X, i, X)
        if k == "obj": s = "%schar %s[%d]" % (static, X, self.num)
        elif k == "objb": s = "%schar %s[%s + 1]" % (static, X, R)
        elif k == "obji": s = "%schar %s[%d] = { sizeof(%s) }" % (static, X, self.num, X)
        elif k == "sobji": s = "static char %s[%d] = { sizeof(%s) }" % (X, self.num, X)
        elif k == "objbi": s = "%schar %s[%s + 1] = { sizeof(%s) }" % (static, X, R, X)
        elif k == "typedef": s = "typedef char %s[%d]" % (X, self.num)
        elif k == "typedefb": s = "typedef char %s[%s + 1]" % (X, R)
        elif k == "enumr": s = "enum { %s = %d }" % (X, self.num)
        elif k == "enumrv": s = "enum { %s = %s + 1 }" % (X, R)
        elif k == "enumr3": s = "enum { a%d_%d = %s + 1, %s = %s + 2, b%d_%d = %s + 3 }" % (l, i, R, X, R, l, i, X)
        else: raise ValueError(k)
        if l == 1: return s + " e%d" % i
        return s if l == 3 else s + ";"


class Base:
    """events (textual order): ("open",) ("close",) ("decl", level) ("complete", level) ("probe", site)"""
    QLEVELS = (0, 1, 2, 4)

    def walk(self):
        scopes = [{"ord": None, "tag": None, "q": []}]
        self.bind = {}
        self.decls = {}

        def lookup(ns):
            for sc in reversed(scopes):
                if sc[ns] is not None:
                    return sc[ns]
            return None

        for ev in self.events():
            if ev[0] == "open":
                scopes.append({"ord": None, "tag": None, "q": []})
            elif ev[0] == "close":
                scopes.pop()
            elif ev[0] == "decl":
                l = ev[1]
                t, o = self.tag.get(l), self.ord.get(l)
                if t:
                    cur = scopes[-1]["tag"]
                    if cur is not None and t in DEFS and not cur.complete and cur.base == t:
                        cur.complete, cur.size = True, value(l, t)       # definition completes the declaration of this scope
                        d = cur
                    else:
                        assert cur is None, "second tag declaration in one scope"
                        d = D(l, t)
                        scopes[-1]["tag"] = d
                    if d.base != "enum" and l in self.QLEVELS:
                        scopes[-1]["q"].append((l, d, "q%d_%%d" % l))
                        if d.selfref:       # the member n declared INSIDE the specifier: 6.2.1p7, it points to the new type
                            scopes[-1]["q"].append((8 + l, d, "q%d_%%d->n" % l))
                        if d.q is None: d.q = l
                    self.decls[("tag", l)] = d
                if o:
                    assert scopes[-1]["ord"] is None
                    d = D(l, o)
                    d.setup_ord(lookup("ord"))          # x still denotes the enclosing declaration here
                    scopes[-1]["ord"] = d
                    self.decls[("ord", l)] = d
            elif ev[0] == "complete":
                d = scopes[-1]["tag"]
                assert d is not None and d.level == ev[1] and not d.complete
                d.complete, d.size = True, value(ev[1], d.base)
            elif ev[0] == "probe":
                o, t = lookup("ord"), lookup("tag")
                qs = [(l, d is t, txt) for sc in scopes for (l, d, txt) in sc["q"]]
                self.bind[ev[1]] = (o, t, bool(t and t.complete), t.size if t and t.complete else None, qs)
        return self.bind

    # expected values of the 4 slots of a site
    def expected(self, site, stmt_site):
        o, t, comp, size, qs = self.bind[site]
        out = [UNSET] * NSLOT
        if o: out[0] = o.val
        if t:
            if t.base == "enum": out[1] = 4
            elif comp: out[1] = size + (1000 * size if t.q is not None else 0) + (1000000 * size if t.selfref else 0)
            if t.base != "enum" and qs:
                out[2] = sum(1 << l for l, same, _ in qs if same)
            if t.base != "enum" and comp and stmt_site:
                out[3] = COPIED
        return out

    # C text of the probes of a site: (list of expressions, statement text for the object probe or "")
    def probes(self, site, X, i, stmt_site):
        o, t, comp, size, qs = self.bind[site]
        ex, st = [], ""
        if o:
            ex.append((0, self.ordobs(o, X, i)))
        if t:
            K = t.base
            if K == "enum": ex.append((1, "sizeof(enum %s)" % X))
            elif comp: ex.append((1, "sizeof(%s %s)" % (K, X) + (" + 1000 * sizeof(*q%d_%d)" % (t.q, i) if t.q is not None else "")
                                  + (" + 1000000 * sizeof(*((%s %s *)0)->n)" % (K, X) if t.selfref else "")))
            if K != "enum" and qs:
                ex.append((2, " + ".join("_Generic(%s, %s %s *: %d, default: 0)" % (txt % i, K, X, 1 << l) for l, _, txt in qs)))
            if K != "enum" and comp and stmt_site:
                last = "sizeof a.c - 1" if t.selfref else "sizeof a - 1"        # c is the last member: the last byte of the object
                st = ("{ %s %s a, b; b.c[%s] = %d; a.c[%s] = 1; a = b; FN(out)[%d] = a.c[%s]; }"
                      % (K, X, last, COPIED, last, NSLOT * site + 3, last))
        return ex, st

    def ordobs(self, o, X, i):
        return o.obs(X, i)

    def pstmt(self, site, X, i):
        ex, st = self.probes(site, X, i, True)
        return " ".join(["FN(out)[%d] = (long)(%s);" % (NSLOT * site + k, e) for k, e in ex] + ([st] if st else []))

    def pexpr(self, site, X, i, last):
        ex, _ = self.probes(site, X, i, False)
        return "(%s)" % ", ".join(["FN(out)[%d] = (long)(%s)" % (NSLOT * site + k, e) for k, e in ex] + [last])

    def pconst(self, site, X, i):
        ex = dict(self.probes(site, X, i, False)[0])
        o = self.bind[site][0]
        if o and not o.constant(): del ex[0]
        return ", ".join("(long)(%s)" % ex[k] if k in ex else str(UNSET) for k in range(3))

    def pnonconst(self, site, X, i):
        """statements for the file-scope observables that are not constant expressions (x[0])"""
        o = self.bind[site][0]
        if o and not o.constant():
            return "FN(out)[%d] = (long)(%s);" % (NSLOT * site, o.obs(X, i))
        return ""

    def tagdecl(self, l, X, i, static=""):
        t = self.tag.get(l)
        if not t: return ""
        K = BASE[t]
        if t in FWD: s = "%s %s;" % (K, X)
        elif t == "enum": return "enum %s { e%d_%d = %d };" % (X, l, i, 60 + l)
        elif t in SELF_TAG: s = "%s;" % self.selftag(l, X)
        else: s = "%s %s { char c[%d]; };" % (K, X, value(l, K))
        if l in self.QLEVELS:
            s += " %s%s %s *q%d_%d;" % (static, K, X, l, i)
        return s

    def latedecl(self, l, X):
        t = self.tag.get(l)
        return "%s %s { char c[%d]; };" % (BASE[t], X, value(l, BASE[t])) if t in LATE else ""

    def selftag(self, l, X):
        t = self.tag[l]
        K = BASE[t]
        return "%s %s { %s %s *n; char c[%d]; }" % (K, X, K, X, value(l, t) - 8 if K == "struct" else value(l, t))

    def orddecl(self, l, X, i, static=""):
        d = self.decls.get(("ord", l))
        return d.text(X, i, static) if d else ""

    def depth(self):
        return sum(1 for v in self.ord.values() if v) + sum(1 for v in self.tag.values() if v)

    def nontrivial(self):
        """the name denotes at least two different things over the probe sites of one name space"""
        self.walk()
        for ns in (0, 1):
            if len(set(id(b[ns]) for b in self.bind.values())) >= 2:
                return True
        return False

    def table(self):
        runs = self.model()
        return [1 if self.nontrivial() else 0] + runs[0] + runs[1]

    def model_runs(self, stmt_sites, skip1):
        """run 0 executes every site; run 1 (or None) executes all but skip1"""
        self.walk()
        full = []
        for s in range(MAXSITES):
            full += self.expected(s, s in stmt_sites) if s in self.bind else [UNSET] * NSLOT
        runs = [full]
        if skip1 is None:
            runs.append([UNSET] * NS)
        else:
            j = list(full)
            for s in skip1:
                j[NSLOT * s:NSLOT * s + NSLOT] = [UNSET] * NSLOT
            runs.append(j)
        return runs

    def decode(self, slot, v):
        """name of an observable (for signatures)"""
        if v == UNSET: return "not-executed"
        if slot == 2:
            return "+".join(("q%d" % l if l < 8 else "q%d.n" % (l - 8)) for l in range(16) if v >> l & 1) or "none"
        if slot == 3:
            return "copied" if v == COPIED else "not-copied"
        def one(x):
            for (ns, l), d in sorted(self.decls.items()):
                if ns == "ord" and slot == 0 and d.val == x: return d.name()
                if ns == "tag" and slot == 1 and d.kind in SELF_TAG and value(l, d.kind) == x: return d.name()
            for l in (0, 1, 2, 3, 4, 5, 6):
                for k in ("obj", "typedef", "enumr", "struct", "union"):
                    if value(l, k) == x: return "L%d.%s" % (l, k)
            return ("enum-tag" if slot == 1 else "int") if x == 4 else "other"
        if slot == 1 and v >= 1000:
            a, b, c = v % 1000, v // 1000 % 1000, v // 1000000
            r = one(a) if a == b else "%s*q=%s" % (one(a), one(b))
            return r if c in (0, a) else "%s[member n->%s]" % (r, one(c))
        return one(v)

    def point_deviation(self, site, slot, want, got):
        """signature part when the wrong value is explained by an inside reference (point of declaration) of the declaration
        that x correctly denotes at the site, else None"""
        self.walk()
        if site not in self.bind or got in ("signal",): return None
        o, t = self.bind[site][0], self.bind[site][1]
        got = int(got)
        if slot == 0 and o and o.kind in SELF_ORD:
            if any(d.val == got for (ns, _), d in self.decls.items() if ns == "ord"):
                return None                                 # x denotes another declaration at the site: a plain misbinding
            dv = o.deviations().get(got)
            what = dv[0] if dv else OUT_REF.get(o.kind, SEES_SELF.get(o.kind))
            return "%s:%s|binds:%s,want:%s" % (o.kind, what, dv[1] if dv else "other", dv[2] if dv else
                                                ("self" if o.kind not in NEEDS_OUTER else "enclosing" if o.kind not in SEES_SELF else "enclosing+self"))
        if slot in (1, 2) and t and t.selfref:
            if slot == 1 and got % 1000 == t.size and got // 1000000 != t.size:
                return "%s:member-declaration|binds:not-self,want:self" % t.kind
            if slot == 2 and (got ^ int(want)) == 1 << (8 + t.level):
                return "%s:member-declaration|binds:not-self,want:self" % t.kind
        return None


# ------------------------------------------------------------------------------------------------------------------
# chain family
# ------------------------------------------------------------------------------------------------------------------
CH_SITES = ["file", "body-entry", "after-block-decls", "for-cond", "for-body-entry", "after-inner-decls", "for-inc", "after-for",
            "file-after-function", "after-inner-completion", "after-block-completion"]
S_FILE, S_ENTRY, S_BLOCK, S_COND, S_BODY, S_INNER, S_INC, S_AFTER, S_FILE2, S_INNER2, S_AFTER2 = range(11)
CH_STMT_SITES = (S_ENTRY, S_BLOCK, S_BODY, S_INNER, S_INNER2, S_AFTER, S_AFTER2, S_FILE2)

# for-init: 6.8.5p3 allows only objects (gcc rejects tags, typedefs and enumerators declared there)
ORD = {0: (None, "obj", "typedef", "enumr"), 1: (None, "obj"), 2: (None, "obj", "typedef", "enumr"), 3: (None, "obj"),
       4: (None, "obj", "typedef", "enumr")}
TAG = {0: (None,) + DEFS + FWD, 1: (None,) + DEFS + ("sfwd", "ufwd"), 2: (None,) + DEFS + FWD, 3: (None,), 4: (None,) + DEFS + FWD}
LABELS = (None, "block", "inner")
# label NAME space: next to the label x a DECOY label whose spelling is related to x - a proper prefix of it (`x`), an extension
# (`x<i>0`), x as its suffix (`yx<i>`), a case variant (`X<i>`) - defined EARLY (first statement of the body, before x) or LATE
# (last statement, after x).  `goto x` must still reach x: reaching the decoy executes probes the model skips, or skips more.
DECOY_REL = ("pfx", "ext", "sfx", "cas")
DECOY_POS = ("early", "late")
DECOYS = tuple("%s-%s" % (r, p) for r in DECOY_REL for p in DECOY_POS)


class Case(Base):
    family = "chain"

    def __init__(self, ord_, tag, label):
        self.ordt, self.tagt, self.label = tuple(ord_), tuple(tag), label
        self.labpos, _, self.decoy = (label or "").partition("/")        # label = position of x [ "/" relation "-" position of a decoy ]
        self.labpos = self.labpos or None
        self.ord = dict(enumerate(self.ordt))
        self.tag = dict(enumerate(self.tagt))

    def cid(self):
        def f(v): return "-" if v is None else v
        return "ord=%s/tag=%s/label=%s" % (",".join(f(v) for v in self.ordt), ",".join(f(v) for v in self.tagt), f(self.label))

    def site_name(self, s):
        return CH_SITES[s]

    def valid(self):
        o, t = self.ordt, self.tagt
        if o[1] and o[2]: return False
        if t[1] in FWD:
            if t[0]: return False                       # `struct x *p` would be a use of the file-scope x, not a declaration
            if t[2] and t[2] != BASE[t[1]]: return False    # only a definition of the same kind may follow in that scope
        elif t[1] and t[2]: return False
        return t[3] is None

    def events(self):
        ev = [("decl", 0), ("probe", S_FILE), ("open",), ("decl", 1), ("probe", S_ENTRY), ("decl", 2), ("probe", S_BLOCK),
              ("open",), ("decl", 3), ("probe", S_COND), ("probe", S_INC),         # the for statement is a block (6.8.5p5)
              ("open",), ("probe", S_BODY), ("decl", 4), ("probe", S_INNER)]
        if self.tagt[4] in LATE: ev.append(("complete", 4))
        ev += [("probe", S_INNER2), ("close",), ("close",), ("probe", S_AFTER)]
        if self.tagt[2] in LATE: ev.append(("complete", 2))
        ev += [("probe", S_AFTER2), ("close",)]
        if self.tagt[0] in LATE: ev.append(("complete", 0))
        ev.append(("probe", S_FILE2))
        return ev

    def model(self):
        """expected probe values: list for jmp=0 and jmp=1 of NS values; UNSET where nothing is recorded"""
        # goto x from the top of the body: probes before the label are not executed (file-scope ones are constants).  The label
        # in 'block' sits after site after-block-decls; in 'inner' at the end of the for body (the for condition is evaluated
        # again after the increment)
        skip = {None: None, "block": (S_ENTRY, S_BLOCK), "inner": (S_ENTRY, S_BLOCK, S_BODY, S_INNER, S_INNER2)}[self.labpos]
        return self.model_runs(CH_STMT_SITES, skip)

    def source(self, i):
        X = "x%d" % i
        self.walk()
        lines = [" ".join(s for s in (self.tagdecl(0, X, i, "static "), self.orddecl(0, X, i, "static ")) if s)]
        lines.append("static long pf%d[3] = {%s};" % (i, self.pconst(S_FILE, X, i)))
        nc = self.pnonconst(S_FILE, X, i)
        if nc: lines.append("static void pfn%d(void) { %s }" % (i, nc))
        lines.append("static void g%d(void);" % i)        # defined after f: probes the file scope after the function's scopes ended
        pa = self.orddecl(1, X, i) or "short a"
        t1 = self.tagt[1]
        if t1 in SELF_TAG: pb = "%s *q1_%d" % (self.selftag(1, X), i)
        elif t1 in ("struct", "union"): pb = "%s %s { char c[%d]; } *q1_%d" % (t1, X, value(1, t1), i)
        elif t1 == "enum": pb = "enum %s { e1_%d = 61 } *p" % (X, i)
        elif t1 in FWD: pb = "%s %s *q1_%d" % (BASE[t1], X, i)
        else: pb = "void *p"
        f = ["void FN(f%d)(%s, %s) {" % (i, pa, pb)]
        f.append("int k = 0; %s %sg%d();" % (" ".join("FN(out)[%d] = pf%d[%d];" % (k, i, k) for k in range(3)), "pfn%d(); " % i if nc else "", i))
        dname = {"": None, "pfx": "x", "ext": X + "0", "sfx": "y" + X, "cas": X.upper()}[self.decoy.split("-")[0]]
        if self.label:
            f.append("if (FN(jmp)) goto %s;" % X)
        if self.decoy.endswith("-early"):
            f.append("%s: ;" % dname)
        f.append(self.pstmt(S_ENTRY, X, i))
        f += [self.tagdecl(2, X, i), self.orddecl(2, X, i)]
        f.append(self.pstmt(S_BLOCK, X, i))
        if self.labpos == "block":
            f.append("%s: ;" % X)
        init = self.orddecl(3, X, i)
        f.append("for (%s; %s; %s) {" % (init, self.pexpr(S_COND, X, i, "k < 1"), self.pexpr(S_INC, X, i, "k++")))
        f.append(self.pstmt(S_BODY, X, i))
        f += [self.tagdecl(4, X, i), self.orddecl(4, X, i)]
        f.append(self.pstmt(S_INNER, X, i))
        f.append(self.latedecl(4, X))
        f.append(self.pstmt(S_INNER2, X, i))
        if self.labpos == "inner":
            f.append("%s: ;" % X)
        f.append("}")
        f.append(self.pstmt(S_AFTER, X, i))
        f.append(self.latedecl(2, X))
        f.append(self.pstmt(S_AFTER2, X, i))
        if self.decoy.endswith("-late"):
            f.append("%s: ;" % dname)
        f.append("}")
        lines.append(" ".join(x for x in f if x))
        lines.append(self.latedecl(0, X))
        lines.append("static long pg%d[3] = {%s};" % (i, self.pconst(S_FILE2, X, i)))
        lines.append("static void g%d(void) { %s %s %s }" % (i, " ".join("FN(out)[%d] = pg%d[%d];" % (NSLOT * S_FILE2 + k, i, k) for k in range(3)),
                                                             self.pnonconst(S_FILE2, X, i), self.probes(S_FILE2, X, i, True)[1]))
        return "\n".join(l for l in lines if l) + "\n"

    def shrinks(self):
        out = []
        if self.decoy:
            out.append(self.__class__(self.ordt, self.tagt, self.labpos))
        if self.label:
            out.append(self.__class__(self.ordt, self.tagt, None))
        for l in range(5):
            if self.ordt[l]:
                o = list(self.ordt); o[l] = None
                out.append(self.__class__(o, self.tagt, self.label))
            if self.tagt[l]:
                t = list(self.tagt); t[l] = None
                out.append(self.__class__(self.ordt, t, self.label))
                if self.tagt[l] in LATE:
                    t = list(self.tagt); t[l] = t[l][:-1]            # keep the declaration, drop the late completion
                    out.append(self.__class__(self.ordt, t, self.label))
        return [c for c in out if c.valid()]


# ------------------------------------------------------------------------------------------------------------------
# point family: the chain skeleton with self-referential declaration kinds (probes inside the declaration)
# ------------------------------------------------------------------------------------------------------------------
_BLK = (None, "obj", "typedef", "enumr", "objb", "obji", "sobji", "objbi", "typedefb", "enumrv", "enumr3")
P_ORD = {0: (None, "obj", "typedef", "enumr", "obji"), 1: (None, "obj", "pself", "pnext", "enumrv", "enumr3"), 2: _BLK,
         3: (None, "obj", "objb", "obji", "objbi"), 4: _BLK}
_PT = (None,) + DEFS + SELF_TAG
P_TAG = {0: _PT, 1: _PT, 2: _PT, 3: (None,), 4: _PT}


class PointCase(Case):
    family = "point"

    def valid(self):
        if not Case.valid(self): return False
        if not any(o in SELF_ORD for o in self.ordt) and not any(t in SELF_TAG for t in self.tagt): return False
        try:
            self.walk()
        except Invalid:
            return False
        return True


# ------------------------------------------------------------------------------------------------------------------
# stmt family: block scopes of selection / iteration statements and their substatements; function prototype scope
# ------------------------------------------------------------------------------------------------------------------
ST_SITES = ["file", "before", "in-condition", "in-body", "in-else-or-increment", "after", "file-after-function", "in-parameter-list"]
T_FILE, T_BEFORE, T_COND, T_BODY, T_ELSE, T_AFTER, T_FILE2 = range(7)
ST_STMT_SITES = (T_BEFORE, T_AFTER, T_FILE2)
KW_STMT = ("if", "while", "do", "for", "switch")
KW_PROTO = ("fnptr", "proto", "fnptr0", "proto0")      # function-pointer declarator / function declaration, at block / file scope
LC, LB = 5, 6                                           # "levels" of the declarations in the condition (parameter list) and the body
ST_ORD = {0: (None, "obj", "typedef", "enumr"), 2: (None, "obj", "typedef", "enumr"), LC: (None, "enumr", "enumrv", "enumr3", "tnext"),
          LB: (None, "enumr", "enumrv", "enumr3")}
ST_TAG = {0: (None,) + DEFS, 2: (None,) + DEFS, LC: (None,) + DEFS + SELF_TAG, LB: (None,) + DEFS + SELF_TAG}


class StmtCase(Base):
    family = "stmt"
    QLEVELS = (0, 2)

    def __init__(self, kw, ord_, tag):
        self.kw = kw
        self.ord = dict(ord_)
        self.tag = dict(tag)
        self.label = None

    def cid(self):
        def f(v): return "-" if v is None else v
        ls = (0, 2, LC, LB)
        return "stmt=%s/ord=%s/tag=%s" % (self.kw, ",".join(f(self.ord.get(l)) for l in ls), ",".join(f(self.tag.get(l)) for l in ls))

    def site_name(self, s):
        if self.kw in KW_PROTO and s == T_COND: return "in-parameter-list"
        return ST_SITES[s]

    def valid(self):
        if self.kw in KW_PROTO and (self.ord.get(LB) or self.tag.get(LB)): return False
        if self.ord.get(LC) == "tnext" and (self.kw not in KW_PROTO or self.tag.get(LC)): return False
        if not (self.ord.get(LC) or self.tag.get(LC) or self.ord.get(LB) or self.tag.get(LB)): return False
        try:
            self.walk()
        except Invalid:
            return False
        return True

    def selfref(self):
        return any(v in SELF_ORD for v in self.ord.values()) or any(v in SELF_TAG for v in self.tag.values())

    def events(self):
        kw = self.kw
        ev = [("decl", 0), ("probe", T_FILE)]
        tn = [("probe", T_COND)] if self.ord.get(LC) == "tnext" else []     # observed through the type of the function
        if kw in ("fnptr0", "proto0"):
            ev += [("open",), ("decl", LC)] + tn + [("close",)]  # function prototype scope ends with the declarator
        ev += [("open",), ("decl", 2), ("probe", T_BEFORE)]
        body = [("open",), ("decl", LB), ("probe", T_BODY), ("close",)]
        if kw in ("fnptr", "proto"):
            ev += [("open",), ("decl", LC)] + tn + [("close",)]
        elif kw in ("while", "switch"):
            ev += [("open",), ("decl", LC), ("probe", T_COND)] + body + [("close",)]
        elif kw == "if":
            ev += [("open",), ("decl", LC), ("probe", T_COND)] + body + [("open",), ("probe", T_ELSE), ("close",), ("close",)]
        elif kw == "for":
            ev += [("open",), ("decl", LC), ("probe", T_COND), ("probe", T_ELSE)] + body + [("close",)]
        elif kw == "do":
            ev += [("open",)] + body + [("decl", LC), ("probe", T_COND), ("close",)]
        ev += [("probe", T_AFTER), ("close",), ("probe", T_FILE2)]
        return ev

    def model(self):
        # if: run 0 takes the then-branch, run 1 the else-branch
        if self.kw == "if":
            r = self.model_runs(ST_STMT_SITES, (T_BODY,))
            r[0][NSLOT * T_ELSE:NSLOT * T_ELSE + NSLOT] = [UNSET] * NSLOT
            return r
        r = self.model_runs(ST_STMT_SITES, None)
        if self.kw in KW_PROTO:             # only the ordinary binding is observable from outside the parameter list
            r[0][NSLOT * T_COND + 1:NSLOT * T_COND + NSLOT] = [UNSET] * (NSLOT - 1)
        return r

    def exprdecl(self, l, X, i):
        """declarations inside an expression: a type name in sizeof"""
        out = []
        t, o = self.tag.get(l), self.ord.get(l)
        if t == "enum": out.append("sizeof(enum %s { e%d_%d = %d })" % (X, l, i, 60 + l))
        elif t in SELF_TAG: out.append("sizeof(%s)" % self.selftag(l, X))
        elif t: out.append("sizeof(%s %s { char c[%d]; })" % (t, X, value(l, t)))
        if o and o != "tnext": out.append("sizeof(%s)" % self.orddecl(l, X, i).rstrip(";"))
        return out

    def paramdecl(self, X, i):
        out = []
        t, o = self.tag.get(LC), self.ord.get(LC)
        if t == "enum": out.append("enum %s { e%d_%d = %d } *a" % (X, LC, i, 60 + LC))
        elif t in SELF_TAG: out.append("%s *a" % self.selftag(LC, X))
        elif t: out.append("%s %s { char c[%d]; } *a" % (t, X, value(LC, t)))
        if o == "tnext": out.append("short %s, __typeof__(%s) *r" % (X, X))
        elif o: out.append("%s b" % self.orddecl(LC, X, i).rstrip(";"))
        return ", ".join(out)

    def tnext_probe(self, i):
        """`short x, __typeof__(x) *r`: the later parameter must see the earlier one (short *), not an enclosing x"""
        if self.ord.get(LC) != "tnext": return ""
        fp = {"fnptr": "fp", "fnptr0": "fp%d" % i, "proto": "FN(h%d)" % i, "proto0": "FN(h%d)" % i}[self.kw]
        return "FN(out)[%d] = _Generic(%s, void (*)(short, short *): 2, void (*)(short, int *): 4, default: 0);" % (NSLOT * T_COND, fp)

    def source(self, i):
        X = "x%d" % i
        kw = self.kw
        self.walk()
        lines = [" ".join(s for s in (self.tagdecl(0, X, i, "static "), self.orddecl(0, X, i, "static ")) if s)]
        lines.append("static long pf%d[3] = {%s};" % (i, self.pconst(T_FILE, X, i)))
        lines.append("static void g%d(void);" % i)
        if kw == "fnptr0": lines.append("static void (*fp%d)(%s);" % (i, self.paramdecl(X, i)))
        if kw == "proto0": lines.append("void FN(h%d)(%s);" % (i, self.paramdecl(X, i)))
        f = ["void FN(f%d)(short a, void *p) {" % i]
        f.append("int k = 0; %s g%d();" % (" ".join("FN(out)[%d] = pf%d[%d];" % (k, i, k) for k in range(3)), i))
        f += [self.tagdecl(2, X, i), self.orddecl(2, X, i)]
        f.append(self.pstmt(T_BEFORE, X, i))
        def pe(site, last, decl=()):
            ex, _ = self.probes(site, X, i, False) if site in self.bind else ((), "")
            return "(%s)" % ", ".join(list(decl) + ["FN(out)[%d] = (long)(%s)" % (NSLOT * site + k, e) for k, e in ex] + [last])
        body = pe(T_BODY, "0", self.exprdecl(LB, X, i)) + ";"
        dc = self.exprdecl(LC, X, i)
        if kw == "fnptr": f.append("void (*fp)(%s);" % self.paramdecl(X, i))
        elif kw == "proto": f.append("void FN(h%d)(%s);" % (i, self.paramdecl(X, i)))
        elif kw == "if": f.append("if (%s) %s else %s;" % (pe(T_COND, "FN(jmp) == 0", dc), body, pe(T_ELSE, "0")))
        elif kw == "while": f.append("while (%s) %s" % (pe(T_COND, "k++ < 1", dc), body))
        elif kw == "do": f.append("do %s while (%s);" % (body, pe(T_COND, "k++ < 1", dc)))
        elif kw == "for": f.append("for (; %s; %s) %s" % (pe(T_COND, "k < 1", dc), pe(T_ELSE, "k++"), body))
        elif kw == "switch": f.append("switch (%s) case 0: %s" % (pe(T_COND, "0", dc), body))
        if kw in KW_PROTO: f.append(self.tnext_probe(i))
        f.append(self.pstmt(T_AFTER, X, i))
        f.append("}")
        lines.append(" ".join(x for x in f if x))
        lines.append("static long pg%d[3] = {%s};" % (i, self.pconst(T_FILE2, X, i)))
        lines.append("static void g%d(void) { %s %s }" % (i, " ".join("FN(out)[%d] = pg%d[%d];" % (NSLOT * T_FILE2 + k, i, k) for k in range(3)),
                                                          self.probes(T_FILE2, X, i, True)[1]))
        return "\n".join(l for l in lines if l) + "\n"

    def shrinks(self):
        out = []
        for l in (0, 2, LC, LB):
            if self.ord.get(l):
                o = dict(self.ord); o[l] = None
                out.append(StmtCase(self.kw, o, self.tag))
            if self.tag.get(l):
                t = dict(self.tag); t[l] = None
                out.append(StmtCase(self.kw, self.ord, t))
        return [c for c in out if c.valid()]


def enum_cases(tier):
    """label-name decoys (DECOYS) next to the label x: chains with a file-scope ordinary x and at most 2 (thorough 3) declarations;
    quick: chain cases with at most 3 declarations (labels with at most 2), stmt cases with at most 3 declarations;
    thorough: chain: at most 5 declarations (labels with at most 4) plus all combinations of the definition kinds
    (no incomplete declarations) with all labels; stmt: at most 5 declarations;
    point: ordinary declarations only / tags only: at most 3 (thorough: 5 = all) declarations, at least one self-referential;
    both name spaces: at most 3 (thorough: 4) declarations, a self-referential one in each; stmt cases with self-referential kinds
    likewise (one name space, or a self-referential declaration in each; at most 3 (thorough: 4) declarations)"""
    out = []
    cmax, lmax, smax = (3, 2, 3) if tier == "quick" else (5, 4, 5)
    dmax = 2 if tier == "quick" else 3          # label-name decoys: chains with a file-scope ordinary x and at most this many declarations
    pmax, pmix = (3, 3) if tier == "quick" else (5, 4)
    ords = [(o, sum(1 for v in o if v)) for o in itertools.product(*[ORD[l] for l in range(5)]) if not (o[1] and o[2])]
    tags = []
    for t in itertools.product(*[TAG[l] for l in range(5)]):
        if Case((None,) * 5, t, None).valid():
            tags.append((t, sum(1 for v in t if v), not any(v in FWD for v in t)))
    for o, do in ords:
        for t, dt, old in tags:
            d = do + dt
            full = tier == "thorough" and old
            if d > cmax and not full:
                continue
            for lab in LABELS:
                if lab and d > lmax and not full:
                    continue
                out.append(Case(o, t, lab))
                if lab and d <= dmax and o[0]:       # a file-scope ordinary x: every probe site observes something
                    out += [Case(o, t, lab + "/" + dc) for dc in DECOYS]
    none = (None,) * 5
    pords = [(o, sum(1 for v in o if v)) for o in itertools.product(*[P_ORD[l] for l in range(5)]) if any(v in SELF_ORD for v in o)]
    pords = [(o, n) for o, n in pords if n <= pmax and PointCase(o, none, None).valid()]
    ptags = [(t, sum(1 for v in t if v)) for t in itertools.product(*[P_TAG[l] for l in range(5)]) if any(v in SELF_TAG for v in t)]
    ptags = [(t, n) for t, n in ptags if n <= pmax and PointCase(none, t, None).valid()]
    out += [PointCase(o, none, None) for o, _ in pords] + [PointCase(none, t, None) for t, _ in ptags]
    out += [PointCase(o, t, None) for o, do in pords for t, dt in ptags if do + dt <= pmix]
    ls = (0, 2, LC, LB)
    for kw in KW_STMT + KW_PROTO:
        for o in itertools.product(*[ST_ORD[l] for l in ls]):
            do = sum(1 for v in o if v)
            for t in itertools.product(*[ST_TAG[l] for l in ls]):
                dt = sum(1 for v in t if v)
                if do + dt > smax:
                    continue
                so, st = any(v in SELF_ORD for v in o), any(v in SELF_TAG for v in t)
                if (so or st) and (do + dt > pmix or (do and dt and not (so and st))):
                    continue        # self-referential kinds: one name space, or a self-referential declaration in each
                c = StmtCase(kw, dict(zip(ls, o)), dict(zip(ls, t)))
                if c.valid():
                    out.append(c)
    return out
