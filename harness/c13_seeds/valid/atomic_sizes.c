#include <stdatomic.h>
_Atomic char c; _Atomic short s; _Atomic int i; _Atomic long l; _Atomic double d; _Atomic _Bool b; _Atomic(int *) p;
int f(int x) {
  c += x; s -= x; i *= x; l |= x; d /= 2; p += x;
  c++; --s; b++; d--;
  long o = 1;
  __builtin_compare_and_swap(&l, &o, 3);
  char k = __builtin_atomic_exchange(&c, 4);
  return atomic_fetch_add(&i, 2) + atomic_exchange(&s, k) + atomic_load(&b);
}
