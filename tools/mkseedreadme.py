#!/usr/bin/env python3
import glob, json, os
V = os.path.dirname(os.path.dirname(os.path.abspath(__file__)))
rows = []
for d in sorted(glob.glob(os.path.join(V, "seeded", "C*-*"))):
    m = json.load(open(os.path.join(d, "meta.json")))
    cb = m.get("caught_by", {})
    if isinstance(cb, str):
        caught = cb
    else:
        caught = "; ".join("%s: %s" % (c, (s[0] if isinstance(s, list) and s else s)) for c, s in cb.items())
    rows.append("| %s | %s | %s |" % (os.path.basename(d), m.get("breaks", "")[:150].replace("|", "/"), caught[:200].replace("|", "/")))
open(os.path.join(V, "seeded", "README.md"), "w").write(
    "# Independently seeded property-breaking changes\n\nEach was written by a sub-agent that saw only the property text and a scratch worktree; each passes the "
    "repository's own `make test`; `tools/seedeval.sh <ID> [checks]` re-confirms that and runs the checks against it (quick tier). "
    "`caught by` shows the first signature each evaluated check reported.\n\n| seed | what it breaks | caught by |\n|---|---|---|\n" + "\n".join(rows) + "\n")
print(len(rows))
