int f(void *p) { *p; return 0; }
