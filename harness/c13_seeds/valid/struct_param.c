struct S { long a; double b; };
struct T { char c[20]; };
struct S f(struct S s, struct T t) { s.a += t.c[0]; return s; }
struct T g(void) { struct T t = {{1}}; return t; }
double h(void) { struct S s = {1, 2}; struct T t = g(); return f(s, t).b; }
