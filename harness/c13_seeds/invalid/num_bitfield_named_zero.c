struct B { int a : 0; } b;
