int f(int x) {
  return __builtin_types_compatible_p(int, typeof(x)) + __builtin_reg_class(typeof(x)) + __builtin_reg_class(double);
}
