union T u = {1};
