int f(void);
static int f(void) { return 0; }
