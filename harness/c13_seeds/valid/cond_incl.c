#define A 1
#if A && defined(A)
int x;
#elif 0
int y
#else
#error no
#endif
#ifdef B
int z
#endif
#ifndef B
int w;
#endif
