"""C17 name tables behave as dictionaries under any history.

Level 1: explicit-state BFS over all reachable states of the tree's own hashmap.c for colliding key sets
         (harness/c17_bfs.c, white-box include).  Invariant in every state: every key of the universe reads back
         the reference dictionary's value; no key occupies two buckets; no assert/unreachable fires.
Level 2: every define/redefine/undef history of length <= L over macro names whose probe sequences overlap in the
         real macro table, replayed through the shipped binary (cc1 -E) with every split of the history between
         -D/-U options and #define/#undef lines; a probe line after every in-file step.
Level 2b: the same for definitions that differ in more than a value: 8 definition forms of one name (object-like,
         function-like with renamed / permuted / variadic parameters, object-like whose body starts with a parenthesis);
         every history of length <= 3 (thorough 4) over {define name k in form f, undef name k} for two colliding names
         and <= 4 (5) for one name; the probe NAME(1,2) tells the forms apart.
"""
import itertools, os, re
from vlib import core

LEVEL = "model_checking"
BUDGET = {"quick": 900, "thorough": 3600}     # deadlines, not expected times

# (cluster, near, fillers, filler_mode, maxlive, home): see harness/c17_bfs.c
BFS_CONFIGS = {
    "quick": [(2, 1, 9, 0, 0, -1), (3, 0, 9, 0, 0, -1), (2, 1, 10, 0, 0, -1), (3, 1, 9, 0, 0, -1), (4, 0, 9, 0, 0, -1), (2, 0, 5, 1, 0, -1),
              (3, 1, 3, 1, 0, -1), (3, 1, 4, 1, 0, -1),
              (1, 0, 19, 1, 1, -1),                        # churn: 20 keys covering every bucket, at most one live
              (3, 1, 6, 0, 0, 15), (2, 1, 9, 0, 0, 15), (3, 1, 3, 1, 0, 15)],   # cluster homed at the last bucket: probe wrap-around
    "thorough": [(2, 1, 9, 0, 0, -1), (3, 0, 9, 0, 0, -1), (2, 1, 10, 0, 0, -1), (3, 1, 9, 0, 0, -1), (4, 0, 9, 0, 0, -1), (2, 0, 5, 1, 0, -1),
                 (3, 1, 3, 1, 0, -1), (3, 1, 4, 1, 0, -1), (1, 0, 19, 1, 1, -1), (3, 1, 6, 0, 0, 15), (2, 1, 9, 0, 0, 15), (3, 1, 3, 1, 0, 15),
                 (2, 1, 17, 1, 2, -1), (4, 1, 9, 0, 0, -1), (3, 2, 9, 0, 0, -1), (4, 0, 9, 0, 0, 15), (2, 0, 18, 1, 2, 15)],
}
MAXSTATES = {"quick": 3000000, "thorough": 12000000}


def fnv(s):
    h = 0xcbf29ce484222325
    for c in s.encode():
        h = (h * 0x100000001b3) & 0xFFFFFFFFFFFFFFFF
        h ^= c
    return h


def build_whitebox(ctx):
    wb = ctx.mkdir("wb")
    for f in ("hashmap.c", "preprocess.c"):
        core.sh(["cp", os.path.join(ctx.tree, f), wb], check=True)
    with open(os.path.join(wb, "chibicc.h"), "w") as f:
        f.write('#pragma once\n#include "%s/chibicc.h"\n' % ctx.tree)
    rc, o, e = core.sh(["gcc", "-O2", "-w", "-o", "bfs", "-I.", os.path.join(core.VERIF, "harness/c17_bfs.c")], cwd=wb)
    if rc != 0:
        raise core.HarnessError("c17_bfs does not build against this tree's hashmap.c:\n" + e[-2000:])
    others = [os.path.join(ctx.tree, f) for f in sorted(os.listdir(ctx.tree))
              if f.endswith(".c") and f not in ("main.c", "hashmap.c", "preprocess.c")]
    rc, o, e = core.sh(["gcc", "-O1", "-w", "-o", "geom", "-I.", os.path.join(core.VERIF, "harness/c17_geom.c")] + others, cwd=wb)
    return wb, rc == 0


def _run_bfs(args):
    wb, cfg, maxstates = args
    rc, o, e = core.sh([os.path.join(wb, "bfs")] + [str(x) for x in cfg[:3]] + [str(maxstates), str(cfg[3]), str(cfg[4]), str(cfg[5])], timeout=1400)
    return cfg, rc, o, e


def _hist_text(names, hist, split):
    """Render a history: first `split` ops as options, the rest as directive lines with a probe after each."""
    probe = " ".join(names)
    opts = ["-D%s=%d" % (names[k], v) if op == "def" else "-U%s" % names[k] for op, k, v in hist[:split]]
    lines = []
    if split > 0:
        lines.append("P%d: %s" % (split - 1, probe))
    for i in range(split, len(hist)):
        op, k, v = hist[i]
        if op == "fill":      # a block of k filler definitions: pushes the real macro table over its growth water-mark
            lines += ["#define VPFILL%d_%d %d" % (i, j, j) for j in range(k)]
        else:
            lines.append("#define %s %d" % (names[k], v) if op == "def" else "#undef %s" % names[k])
        lines.append("P%d: %s" % (i, probe))
    return opts, "\n".join(lines) + "\n"


def _expected(names, hist, upto, init=None):
    d = dict(init or {})
    for op, k, v in hist[:upto + 1]:
        if op == "fill":
            continue
        if op == "def":
            d[k] = v
        else:
            d.pop(k, None)
    return " ".join(str(d[k]) if k in d else names[k] for k in range(len(names)))


def splits(n):
    return [0, n, n // 2]


def splits_for(hist):
    if any(op == "fill" for op, k, v in hist):
        return [0]           # filler blocks are rendered as in-file lines only
    return splits(len(hist))


def _cli_batch(args):
    chibicc, wd, names, hists, init = args
    os.makedirs(wd, exist_ok=True)
    bad = []
    n = 0
    src = os.path.join(wd, "h.c")
    for hist in hists:
        L = len(hist)
        for split in splits_for(hist):
            opts, text = _hist_text(names, hist, split)
            with open(src, "w") as f:
                f.write(text)
            st, out, err = core.run_limited([chibicc, "-cc1", "-E"] + opts + ["-cc1-input", src, src], cwd=wd)
            n += 1
            # the tokens of a probe may be spread over several output lines (white space is not significant)
            parts = re.split(r"(?m)^P(\d+)\s*:", out)
            got = {parts[j]: " ".join(parts[j + 1].split()) for j in range(1, len(parts) - 1, 2)}
            problem = None
            if st != 0:
                problem = "status=%s" % st
            else:
                for i in ([split - 1] if split > 0 else []) + list(range(split, L)):
                    exp = _expected(names, hist, i, init).split()
                    if str(i) not in got:
                        problem = "probe-missing"
                        break
                    ge = got[str(i)].split()
                    # "*" in the expectation: defined with an expansion the model does not predict (dynamic macro): any one token but the name
                    same = len(ge) == len(exp) and all((e == g) if e != "*" else (g != names[j]) for j, (e, g) in enumerate(zip(exp, ge)))
                    if not same:
                        k = next((j for j in range(len(names)) if j >= len(ge) or (ge[j] != exp[j] and not (exp[j] == "*" and ge[j] != names[j]))), 0)
                        problem = ("deleted-name-defined" if exp[k] == names[k] else
                                   "defined-name-absent" if k < len(ge) and ge[k] == names[k] else "stale-definition")
                        break
            if problem:
                bad.append((problem, hist, split, opts, text, out[-400:] + err[-400:]))
    return n, bad


# ---- level 2b: the definition is more than a value: object-like / function-like forms of one name ----------------
# (kind, text after the name in #define, text for -D, expansion of the probe NAME(1,2) with white space removed)
FORMS = [("obj", " 7", "=7", "7(1,2)"),
         ("fn", "(a,b) a", "(a,b)=a", "1"),
         ("fn", "(b,a) a", "(b,a)=a", "2"),          # same arity, same body spelling, parameters permuted
         ("fn", "(a,b) b", "(a,b)=b", "2"),
         ("fn", "(a,c) a c", "(a,c)=a c", "12"),
         ("fn", "(a,...) a", "(a,...)=a", "1"),
         ("fn", "(...) __VA_ARGS__", "(...)=__VA_ARGS__", "1,2"),
         ("obj", " (a,b) a", "=(a,b) a", "(a,b)a(1,2)")]   # object-like: white space before the parenthesis


def _forms_text(names, hist, split):
    probe = " ".join("%s(1,2) ;" % n for n in names)
    opts = ["-D%s%s" % (names[k], FORMS[f][2]) if op == "def" else "-U%s" % names[k] for op, k, f in hist[:split]]
    lines = []
    if split > 0:
        lines.append("P%d: %s" % (split - 1, probe))
    for i in range(split, len(hist)):
        op, k, f = hist[i]
        lines.append("#define %s%s" % (names[k], FORMS[f][1]) if op == "def" else "#undef %s" % names[k])
        lines.append("P%d: %s" % (i, probe))
    return opts, "\n".join(lines) + "\n"


def _forms_expected(names, hist, upto):
    d = {}
    for op, k, f in hist[:upto + 1]:
        if op == "def":
            d[k] = f
        else:
            d.pop(k, None)
    return "".join((FORMS[d[k]][3] if k in d else "%s(1,2)" % names[k]) + ";" for k in range(len(names)))


def _cli_forms_batch(args):
    chibicc, wd, names, hists = args
    os.makedirs(wd, exist_ok=True)
    bad = []
    n = 0
    src = os.path.join(wd, "h.c")
    for hist in hists:
        L = len(hist)
        for split in splits(L):
            opts, text = _forms_text(names, hist, split)
            with open(src, "w") as f:
                f.write(text)
            st, out, err = core.run_limited([chibicc, "-cc1", "-E"] + opts + ["-cc1-input", src, src], cwd=wd)
            n += 1
            parts = re.split(r"(?m)^P(\d+)\s*:", out)
            got = {parts[j]: "".join(parts[j + 1].split()) for j in range(1, len(parts) - 1, 2)}
            problem = None
            if st != 0:
                problem = "status=%s" % st
            else:
                for i in ([split - 1] if split > 0 else []) + list(range(split, L)):
                    exp = _forms_expected(names, hist, i)
                    if got.get(str(i)) != exp:
                        ge = (got.get(str(i)) or "").split(";")
                        ee = exp.split(";")
                        k = next((j for j in range(len(names)) if j >= len(ge) or ge[j] != ee[j]), 0)
                        undefined = "%s(1,2)" % names[k]
                        problem = ("probe-missing" if str(i) not in got else
                                   "deleted-name-defined" if ee[k] == undefined else
                                   "defined-name-absent" if k < len(ge) and ge[k] == undefined else "stale-definition")
                        break
            if problem:
                bad.append((problem, hist, split, opts, text, out[-400:] + err[-400:]))
    return n, bad


def run(ctx):
    wb, have_geom = build_whitebox(ctx)

    # ---------------- level 1: BFS over real hashmap states --------------
    cfgs = BFS_CONFIGS[ctx.tier]
    res = core.pmap(_run_bfs, [(wb, c, MAXSTATES[ctx.tier]) for c in cfgs])
    states = transitions = rehashes = reuse = 0
    per_cfg = []
    for cfg, rc, o, e in res:
        m = re.search(r"STATS (.*)", o)
        if rc != 0 or not m:
            raise core.HarnessError("c17_bfs %s failed rc=%s: %s" % (cfg, rc, (o + e)[-500:]))
        st = dict((k, int(v)) for k, v in (kv.split("=") for kv in m.group(1).split()))
        per_cfg.append({"cluster": cfg[0], "near": cfg[1], "fillers": cfg[2], "filler_mode": cfg[3], "maxlive": cfg[4], "home": cfg[5], **st})
        states += st["states"]; transitions += st["transitions"]; rehashes += st["rehashes"]; reuse += st["tomb_reuse"]
        if st["capped"]:
            ctx.incomplete("BFS config %s hit the state cap; covered %d states" % (cfg, st["states"]))
        keys = re.search(r"KEYS (.*)", o).group(1)
        for vm in re.finditer(r"VIOL (\S+) \|(.*)", o):
            kind, hist = vm.group(1), vm.group(2).strip()
            nops = len(hist.split())
            ctx.violation("C17|hashmap|%s" % kind,
                          "hashmap.c: %s after history [%s] (keys: %s)" % (kind, hist, keys),
                          files={"history.txt": "config=%s\nkeys=%s\nhistory=%s\n" % (cfg, keys, hist),
                                 "c17_bfs.c": open(os.path.join(core.VERIF, "harness/c17_bfs.c")).read()},
                          replay=("d=$(mktemp -d); trap 'rm -rf $d' EXIT; cp $CHIBICC_DIR/hashmap.c $d/; "
                                  "printf '#pragma once\\n#include \"%%s/chibicc.h\"\\n' $CHIBICC_DIR > $d/chibicc.h; "
                                  "gcc -O2 -w -I$d -o $d/bfs -x c - < c17_bfs.c 2>/dev/null || "
                                  "{ cp c17_bfs.c $d/h.c; gcc -O2 -w -I$d -o $d/bfs $d/h.c || exit 0; }; "
                                  "$d/bfs %d %d %d %d %d %d %d | grep -q '^VIOL %s ' && exit 1; exit 0"
                                  % (cfg[0], cfg[1], cfg[2], MAXSTATES[ctx.tier], cfg[3], cfg[4], cfg[5], kind)))
        for sm in re.finditer(r"SAMPLE (.*)", o):
            ctx.sample({"level": 1, "config": list(cfg), "history_to_a_reached_state": sm.group(1).strip()}, limit=3)
    if rehashes == 0 or reuse == 0:
        # the configurations are sized for the geometry of the pinned hashmap.c (16 buckets, grow at 70 %); a tree with another
        # geometry is explored without reaching a rehash: that is lost coverage of level 1 (level 2 grows the real table), not an alarm
        hm = open(os.path.join(ctx.tree, "hashmap.c"), errors="replace").read()
        geo = (re.search(r"#define\s+INIT_SIZE\s+(\d+)", hm), re.search(r"#define\s+HIGH_WATERMARK\s+(\d+)", hm))
        std = geo[0] and geo[1] and (int(geo[0].group(1)), int(geo[1].group(1))) == (16, 70)
        if std or reuse == 0:
            raise core.HarnessError("vacuous BFS: rehashes=%d tombstone-reuse=%d" % (rehashes, reuse))
        ctx.incomplete("hashmap.c has another table geometry than the BFS key universes were sized for: no rehash was reached at level 1 (%d states explored)" % states)
    ctx.cover(states=states, transitions=transitions, bfs_rehash_transitions=rehashes,
              bfs_tombstone_reuse_transitions=reuse, bfs_configs=per_cfg)

    # ---------------- level 2: histories through the real binary ----------
    def fallback_names(home_last):
        cap, cnt = 128, {}
        for i in range(100000):
            n = "VPM%d" % i
            hh = fnv(n) % cap
            if home_last and hh != cap - 1:
                continue
            cnt.setdefault(hh, []).append(n)
            if len(cnt[hh]) == 3:
                return cnt[hh] + [next("VPN%d" % j for j in range(100000) if fnv("VPN%d" % j) % cap == (hh + 1) % cap)]

    geom = "whitebox"
    name_sets = []
    for label, extra in (("colliding", []), ("colliding-at-last-bucket", ["-1"])):
        names = None
        if have_geom:
            rc, o, e = core.sh([os.path.join(wb, "geom"), "3"] + extra, timeout=60)
            if rc == 0:
                names = re.findall(r"NAME (\S+)", o) + re.findall(r"NEAR (\S+)", o)
                ctx.cover(**{"macro_table_" + label.replace("-", "_"): re.search(r"CAP.*", o).group(0)})
        if not names or len(names) != 4:
            geom = "fallback-fnv-guess"
            names = fallback_names(bool(extra))
        name_sets.append((label, names, {}))
    # predefined names: the initial definitions are read from the binary itself (the property is about the history
    # of operations on them, not about which macros are predefined)
    pre = ["unix", "linux", "__STDC_VERSION__", "__x86_64__"]
    psrc = os.path.join(ctx.mkdir("pre"), "p.c")
    open(psrc, "w").write("".join("Q%d: %s\n" % (i, n) for i, n in enumerate(pre)))
    st, out, err = core.run_limited([ctx.chibicc, "-cc1", "-E", "-cc1-input", psrc, psrc])
    init = {}
    for i, n in enumerate(pre):
        m = re.search(r"^Q%d: (.*)$" % i, out, re.M)
        if st == 0 and m and m.group(1).strip() != n and len(m.group(1).split()) == 1:
            init[i] = m.group(1).strip()
    if len(init) >= 2:
        name_sets.append(("predefined", pre, init))
    # dynamic macros: initially defined with an expansion that changes from use to use ("*"); after #define/-D they are ordinary
    dyn = ["__LINE__", "__COUNTER__", "__FILE__", "__BASE_FILE__"]
    name_sets.append(("dynamic", dyn, {i: "*" for i in range(len(dyn))}))
    ctx.cover(macro_geometry=geom, macro_name_sets={l: n for l, n, _ in name_sets})
    # alphabet A: 3 names (two values for the first two); alphabet B adds the fourth (neighbouring) name
    opsA = [("def", 0, 1), ("def", 0, 2), ("undef", 0, 0), ("def", 1, 1), ("def", 1, 2), ("undef", 1, 0),
            ("def", 2, 1), ("undef", 2, 0)]
    opsB = opsA + [("def", 2, 2), ("def", 3, 1), ("undef", 3, 0)]
    nruns = nh = ngrow = 0
    for label, names, init in name_sets:
        if label == "colliding":
            plan = [(opsA, 5), (opsB, 3)] if ctx.tier == "quick" else [(opsA, 6), (opsB, 5)]
        else:
            plan = [(opsA, 4), (opsB, 3)] if ctx.tier == "quick" else [(opsA, 5), (opsB, 4)]
        hists = []
        for ops, L in plan:
            hists += list(itertools.product(ops, repeat=L))
        if label not in ("predefined", "dynamic"):
            # growth of the real macro table in the middle of a history: a filler block at every position of every short history
            nfill = 60
            Lg = 3 if ctx.tier == "quick" else 4
            grow = []
            for h0 in itertools.product(opsA, repeat=Lg):
                for pos in range(Lg + 1):
                    grow.append(tuple(h0[:pos]) + (("fill", nfill, 0),) + tuple(h0[pos:]))
            ngrow += len(grow)
            hists += grow
        nh += len(hists)
        batches = core.chunks(hists, max(1, len(hists) // (core.NPROC * 8) + 1))
        args = [(ctx.chibicc, os.path.join(ctx.work, "cli_%s_%d" % (label, i)), names, b, init) for i, b in enumerate(batches)]
        res = core.pmap(_cli_batch, args)
        nruns += sum(r[0] for r in res)
        for n, bad in res:
            for problem, hist, split, opts, text, tail in bad:
                hs = " ".join("fill(%d)" % k if op == "fill" else "%s(%s%s)" % (op, names[k], ",%d" % v if op == "def" else "") for op, k, v in hist)
                ctx.violation("C17|macro-cli|%s|%s" % (label, problem),
                              "macro table history [%s] split=%d (first %d operations as -D/-U options) -> %s" % (hs, split, split, problem),
                              files={"h.c": text, "opts.txt": " ".join(opts) + "\n",
                                     "expected.txt": "\n".join("P%d: %s" % (i, _expected(names, hist, i, init)) for i in range(len(hist))) + "\n"},
                              replay=("$CHIBICC -cc1 -E $(cat opts.txt) -cc1-input h.c h.c > got.txt 2>&1 || exit 1\n"
                                      "tr '\\n' ' ' < got.txt | sed 's/P\\([0-9]*\\) *:/\\nP\\1:/g' | sed 's/  */ /g; s/ *$//' | grep '^P' > got1.txt\n"
                                      "while read l; do k=${l%%:*}; e=$(grep \"^$k:\" expected.txt); [ -z \"$e\" ] && continue; "
                                      "python3 -c 'import sys; g=sys.argv[1].split()[1:]; e=sys.argv[2].split()[1:]; sys.exit(0 if len(g)==len(e) and all(x==y or x==\"*\" for x,y in zip(e,g)) else 1)' \"$l\" \"$e\" || exit 1; done < got1.txt\nexit 0"))
        ctx.sample({"level": 2, "name_set": label, "names": names, "history": [list(x) for x in hists[len(hists) // 3]],
                    "rendering": _hist_text(names, hists[len(hists) // 3], 1)}, limit=7)
    # level 2b: definition forms (object-like / function-like with renamed, permuted, variadic parameters) of two
    # colliding names: every history of length <= Lf over {define name k in form f, undef name k}
    fnames = name_sets[0][1][:2]
    fops = [("def", k, f) for k in range(2) for f in range(len(FORMS))] + [("undef", k, 0) for k in range(2)]
    fops1 = [o for o in fops if o[1] == 0]
    fh = []
    for ops, L in ([(fops, 3), (fops1, 4)] if ctx.tier == "quick" else [(fops, 4), (fops1, 5)]):
        for l in range(1, L + 1):
            fh += list(itertools.product(ops, repeat=l))
    fh = sorted(set(fh), key=lambda h: (len(h), h))
    batches = core.chunks(fh, max(1, len(fh) // (core.NPROC * 8) + 1))
    res = core.pmap(_cli_forms_batch, [(ctx.chibicc, os.path.join(ctx.work, "clif_%d" % i), fnames, b) for i, b in enumerate(batches)])
    nfruns = sum(r[0] for r in res)
    for n, bad in res:
        for problem, hist, split, opts, text, tail in bad:
            hs = " ".join("define(%s%s)" % (fnames[k], FORMS[f][1]) if op == "def" else "undef(%s)" % fnames[k] for op, k, f in hist)
            ctx.violation("C17|macro-cli|definition-forms|%s" % problem,
                          "macro table history [%s] split=%d (first %d operations as -D/-U options) -> %s; probe NAME(1,2)" % (hs, split, split, problem),
                          files={"h.c": text, "opts.txt": "\n".join(opts) + "\n",
                                 "expected.txt": "\n".join("P%d:%s" % (i, _forms_expected(fnames, hist, i)) for i in range(len(hist))) + "\n"},
                          replay=("python3 - <<'PYEOF'\nimport subprocess, os, re, sys\n"
                                  "opts = [l for l in open('opts.txt').read().split('\\n') if l]\n"
                                  "r = subprocess.run([os.environ['CHIBICC'], '-cc1', '-E'] + opts + ['-cc1-input', 'h.c', 'h.c'], capture_output=True, text=True)\n"
                                  "if r.returncode != 0: sys.exit(1)\n"
                                  "parts = re.split(r'(?m)^P(\\d+)\\s*:', r.stdout)\n"
                                  "got = {parts[j]: ''.join(parts[j + 1].split()) for j in range(1, len(parts) - 1, 2)}\n"
                                  "exp = dict(l[1:].split(':', 1) for l in open('expected.txt').read().split('\\n') if l)\n"
                                  "sys.exit(1 if any(got[k] != exp[k] for k in got if k in exp) else 0)\nPYEOF"))
    ctx.sample({"level": "2b", "names": fnames, "forms": [f[1] for f in FORMS], "history": [list(x) for x in fh[len(fh) // 2]],
                "rendering": _forms_text(fnames, fh[len(fh) // 2], 1)}, limit=8)
    ctx.cover(traces_validated_against_impl=nruns + nfruns, cli_histories=nh, cli_histories_with_table_growth=ngrow,
              cli_definition_form_histories=len(fh), definition_forms=len(FORMS))
    ctx.assume("hash geometry (capacity, hash function) is read from the tree's own hashmap.c/preprocess.c; "
               "if that white-box build fails the CLI level falls back to an FNV guess (macro_geometry field)")
    ctx.assume("key universes are bounded (<= 4 colliding + 2 neighbouring + 10 filler keys; 20 keys with at most 1-2 live for churn); larger universes are not explored")
