"""Reference model of the C preprocessor's token layer (C11 6.4 pp-tokens, 6.10.3 macro replacement).

Written to be boring and close to the text of the standard:

  * lex(text)              translation phases 1-3: line splices, comments, pp-tokens (with preceding-white-space and
                           beginning-of-line flags and physical line numbers).
  * Macro / parse_define   6.10.3 definitions (object-like, function-like, `...`, GNU `name...`).
  * Preprocessor           Prosser's hide-set algorithm (the one the C standard's wording was derived from), with
                           the standard's placemarker semantics for ## written out explicitly, C2x __VA_OPT__ and
                           the GNU `, ## __VA_ARGS__` comma deletion.  Directives modelled: #define #undef and the
                           null directive; everything else raises Unmodelled (C10 can subclass `directive`).

A result is only produced where the standard (plus the two documented extensions) defines it; everything else
raises Undefined(reason): constraint violations (arity, # without parameter, ## at an end of the body,
__VA_ARGS__ outside a variadic macro, unterminated invocation), undefined behaviour (paste or stringize giving an
invalid token, directive inside macro arguments) and unspecified behaviour (# / ## evaluation order whenever the
order changes the result).

Used by checks/c09.py; the tokenizer and `relex` are meant to be reused by C10/C19.
CLI:  python3 models/cpp.py relex [--after MARKER] [--until-prefix P] < text    one pp-token spelling per line
      python3 models/cpp.py expand FILE                          prints the model's expansion, one token per line
"""
import re, sys

# ----------------------------------------------------------------------------------------------------------------
# pp-tokens
# ----------------------------------------------------------------------------------------------------------------
ID, NUM, STR, CHR, PUNCT, OTHER = "id", "num", "str", "chr", "punct", "other"

PUNCTUATORS = [
    "%:%:", "<<=", ">>=", "...", "->", "++", "--", "<<", ">>", "<=", ">=", "==", "!=", "&&", "||", "*=", "/=", "%=",
    "+=", "-=", "&=", "^=", "|=", "##", "<:", ":>", "<%", "%>", "%:",
    "[", "]", "(", ")", "{", "}", ".", "&", "*", "+", "-", "~", "!", "/", "%", "<", ">", "^", "|", "?", ":", ";", "=",
    ",", "#",
]
_P_BY_FIRST = {}
for _p in PUNCTUATORS:
    _P_BY_FIRST.setdefault(_p[0], []).append(_p)
for _k in _P_BY_FIRST:
    _P_BY_FIRST[_k].sort(key=len, reverse=True)

_ID_START = set("abcdefghijklmnopqrstuvwxyzABCDEFGHIJKLMNOPQRSTUVWXYZ_$")
_ID_CONT = _ID_START | set("0123456789")
_DIGITS = set("0123456789")
_WS = set(" \t\f\v\r")


class LexError(Exception):
    pass


class Tok(object):
    """One preprocessing token.  s: spelling, kind, ws: preceded by white space (incl. comments), bol: first token
    on its (logical) line, line: physical line of its first character, hs: hide set, oline: line that __LINE__ is to
    report for this token (line of the outermost macro invocation it came from), org: "#" for a string literal that
    the # operator produced, "##" for a token that the ## operator produced (evidence only: nested quoting, macro names
    created by pasting), else None."""
    __slots__ = ("s", "kind", "ws", "bol", "line", "hs", "oline", "org")

    def __init__(self, s, kind, ws=False, bol=False, line=0, hs=frozenset(), oline=None, org=None):
        self.s = s
        self.kind = kind
        self.ws = ws
        self.bol = bol
        self.line = line
        self.hs = hs
        self.oline = line if oline is None else oline
        self.org = org

    def copy(self):
        return Tok(self.s, self.kind, self.ws, self.bol, self.line, self.hs, self.oline, self.org)

    def __repr__(self):
        return "Tok(%r)" % self.s


def splice(text):
    """Phase 2.  Returns (text without backslash-newline, list mapping offsets to physical lines or None)."""
    if "\\\n" not in text:
        return text, None
    out = []
    lines = []
    line = 1
    i = 0
    n = len(text)
    while i < n:
        c = text[i]
        if c == "\\" and i + 1 < n and text[i + 1] == "\n":
            i += 2
            line += 1
            continue
        out.append(c)
        lines.append(line)
        if c == "\n":
            line += 1
        i += 1
    lines.append(line)
    return "".join(out), lines


def lex(text, first_line=1, tolerant=False, do_splice=True):
    """Phases 1-3 on `text`; returns a list of Tok.  tolerant=True turns characters that cannot start a token and
    unterminated literals into OTHER tokens (6.4p3 'each non-white-space character that cannot be one of the
    above') instead of raising LexError."""
    if do_splice:
        text, lmap = splice(text)
    else:
        lmap = None
    toks = []
    i = 0
    n = len(text)
    line = first_line
    ws = False
    bol = True
    while i < n:
        c = text[i]
        if c == "\n":
            line += 1
            bol = True
            ws = False
            i += 1
            continue
        if c in _WS:
            ws = True
            i += 1
            continue
        if c == "/" and i + 1 < n:
            d = text[i + 1]
            if d == "/":
                j = text.find("\n", i)
                i = n if j < 0 else j
                ws = True
                continue
            if d == "*":
                j = text.find("*/", i + 2)
                if j < 0:
                    raise LexError("unterminated comment")
                if lmap is None:
                    line += text.count("\n", i, j)
                i = j + 2
                ws = True
                continue
        start = i
        if c in _DIGITS or (c == "." and i + 1 < n and text[i + 1] in _DIGITS):
            i += 1
            while i < n:
                d = text[i]
                if d in "eEpP" and i + 1 < n and text[i + 1] in "+-":
                    i += 2
                elif d in _ID_CONT or d == "." or ord(d) >= 0x80:
                    i += 1
                else:
                    break
            kind = NUM
        elif c in _ID_START or ord(c) >= 0x80:
            i += 1
            while i < n and (text[i] in _ID_CONT or ord(text[i]) >= 0x80):
                i += 1
            kind = ID
            if i < n and text[i] in "\"'" and text[start:i] in ("L", "u", "U", "u8"):
                j = _literal_end(text, i)
                if j > 0 and not (text[i] == "'" and text[start:i] == "u8"):
                    kind = STR if text[i] == '"' else CHR
                    i = j
        elif c == '"' or c == "'":
            j = _literal_end(text, i)
            if j < 0:
                if not tolerant:
                    raise LexError("unterminated literal at line %d" % line)
                i += 1
                kind = OTHER
            else:
                kind = STR if c == '"' else CHR
                i = j
        else:
            cands = _P_BY_FIRST.get(c)
            kind = PUNCT
            if cands:
                for p in cands:
                    if text.startswith(p, i):
                        # 6.4p6-like special case does not exist in C (only C++ has <:: handling)
                        i += len(p)
                        break
            else:
                i += 1
                kind = OTHER
        tl = lmap[start] if lmap is not None else line
        toks.append(Tok(text[start:i], kind, ws, bol, tl))
        ws = False
        bol = False
    return toks


def _literal_end(text, i):
    """text[i] is a quote; return the offset just past the matching quote on the same line, or -1."""
    q = text[i]
    j = i + 1
    n = len(text)
    while j < n:
        c = text[j]
        if c == "\\" and j + 1 < n and text[j + 1] != "\n":
            j += 2
            continue
        if c == "\n":
            return -1
        if c == q:
            if q == "'" and j == i + 1:
                return -1           # '' is not a character constant
            return j + 1
        j += 1
    return -1


def relex(text):
    """Spellings of the pp-tokens of an -E output (tolerant).  A backslash that happens to be printed last on a line
    is kept as a token (whether -E output re-reads as the same program is C19's question, not C09's)."""
    return [t.s for t in lex(text, tolerant=True, do_splice=False)]


def spell(toks):
    return [t.s for t in toks]


# ----------------------------------------------------------------------------------------------------------------
# macro definitions
# ----------------------------------------------------------------------------------------------------------------
class Undefined(Exception):
    """The standard does not define the result (constraint violation, undefined or unspecified behaviour)."""

    def __init__(self, reason):
        Exception.__init__(self, reason)
        self.reason = reason


class Unmodelled(Exception):
    pass


class Macro(object):
    __slots__ = ("name", "funclike", "params", "variadic", "body", "builtin")

    def __init__(self, name, funclike=False, params=(), variadic=None, body=(), builtin=None):
        self.name = name
        self.funclike = funclike
        self.params = list(params)   # named parameters, without the variadic one
        self.variadic = variadic     # None, "__VA_ARGS__" or the GNU name in `name...`
        self.body = list(body)
        self.builtin = builtin

    def same_as(self, other):
        """6.10.3p2: redefinition is allowed only if identical up to white-space separation."""
        if (self.funclike, self.params, self.variadic) != (other.funclike, other.params, other.variadic):
            return False
        if len(self.body) != len(other.body):
            return False
        for k, (a, b) in enumerate(zip(self.body, other.body)):
            if a.s != b.s or (k > 0 and (a.ws != b.ws)):
                return False
        return True


def parse_define(toks):
    """toks: tokens of a #define line after the word `define`.  Returns a Macro or raises Undefined."""
    if not toks or toks[0].kind != ID:
        raise Undefined("define:name")
    name = toks[0].s
    if name == "defined" or name == "__VA_ARGS__" or name == "__VA_OPT__":
        raise Undefined("define:reserved-name")
    rest = toks[1:]
    if rest and rest[0].s == "(" and not rest[0].ws:
        params = []
        variadic = None
        i = 1
        if i < len(rest) and rest[i].s == ")":
            i += 1
        else:
            while True:
                if i >= len(rest):
                    raise Undefined("define:params")
                t = rest[i]
                if t.s == "...":
                    variadic = "__VA_ARGS__"
                    i += 1
                    if i >= len(rest) or rest[i].s != ")":
                        raise Undefined("define:params")
                    i += 1
                    break
                if t.kind != ID or t.s == "__VA_ARGS__" or t.s == "__VA_OPT__":
                    raise Undefined("define:params")
                if t.s in params:
                    raise Undefined("define:duplicate-param")
                i += 1
                if i < len(rest) and rest[i].s == "...":
                    variadic = t.s
                    i += 1
                    if i >= len(rest) or rest[i].s != ")":
                        raise Undefined("define:params")
                    i += 1
                    break
                params.append(t.s)
                if i >= len(rest):
                    raise Undefined("define:params")
                if rest[i].s == ")":
                    i += 1
                    break
                if rest[i].s != ",":
                    raise Undefined("define:params")
                i += 1
        body = rest[i:]
        m = Macro(name, True, params, variadic, body)
    else:
        body = rest
        if body and not body[0].ws:
            # 6.10.3p3: white space is required between the name and the replacement list of an object-like macro
            raise Undefined("define:no-space-after-name")
        m = Macro(name, False, (), None, body)
    _check_body(m)
    return m


def _check_body(m):
    b = m.body
    if b and (b[0].s == "##" or b[-1].s == "##"):
        raise Undefined("define:##-at-end")
    allp = set(m.params)
    if m.variadic:
        allp.add(m.variadic)
    depth_opt = []
    i = 0
    while i < len(b):
        t = b[i]
        if t.s == "__VA_ARGS__" and m.variadic != "__VA_ARGS__":
            raise Undefined("define:__VA_ARGS__-outside-variadic")
        if t.s == "__VA_OPT__":
            if not m.variadic:
                raise Undefined("define:__VA_OPT__-outside-variadic")
            if i + 1 >= len(b) or b[i + 1].s != "(":
                raise Undefined("define:__VA_OPT__-without-paren")
        if m.funclike and t.s == "#" and t.kind == PUNCT:
            nx = b[i + 1] if i + 1 < len(b) else None
            if nx is None or not (nx.s in allp or nx.s == "__VA_OPT__"):
                raise Undefined("define:#-without-parameter")
        i += 1


# ----------------------------------------------------------------------------------------------------------------
# expansion
# ----------------------------------------------------------------------------------------------------------------
class _PM(object):
    """placemarker"""
    s = ""
    kind = "placemarker"


PLACEMARKER = _PM()


def stringize(toks, escape_everything=False):
    """6.10.3.2p2: the spelling of every token, one space where white space separated two tokens, a \\ inserted before
    each " and \\ of a string literal or character constant (of any prefix) - and nowhere else.  The result must be
    ONE valid string literal, else the behaviour is undefined.
    escape_everything=True is not the standard: it transcribes a known deviation of the pinned chibicc tree (a \\ before
    every " and \\ of the text, also outside literals) so that a check can recognise exactly that deviation."""
    parts = []
    for k, t in enumerate(toks):
        if k > 0 and (t.ws or t.bol):
            parts.append(" ")
        if t.kind in (STR, CHR) or escape_everything:
            parts.append(t.s.replace("\\", "\\\\").replace('"', '\\"'))
        else:
            parts.append(t.s)
    s = '"' + "".join(parts) + '"'
    try:
        r = lex(s)
    except LexError:
        r = []
    if len(r) != 1 or r[0].kind != STR or r[0].s != s:
        raise Undefined("stringize-invalid-literal")
    return s


def paste_spelling(a, b):
    s = a + b
    try:
        r = lex(s)
    except LexError:
        r = []
    if len(r) != 1 or r[0].s != s or r[0].kind == OTHER:
        return None
    return r[0]


class Source(object):
    """Token source with push-back: pending expansion results on top of the file's remaining tokens."""

    def __init__(self, toks):
        self.file = toks
        self.pos = 0
        self.pending = []      # stack, top at the end

    def peek(self):
        if self.pending:
            return self.pending[-1]
        if self.pos < len(self.file):
            return self.file[self.pos]
        return None

    def peek_is_file_directive(self):
        if self.pending or self.pos >= len(self.file):
            return False
        t = self.file[self.pos]
        return t.bol and t.s == "#" and t.kind == PUNCT

    def next(self):
        if self.pending:
            return self.pending.pop()
        if self.pos < len(self.file):
            t = self.file[self.pos]
            self.pos += 1
            return t
        return None

    def push(self, toks):
        self.pending.extend(reversed(toks))


class Preprocessor(object):
    MAX_STEPS = 200000

    def __init__(self, filename="<stdin>", gnu_comma=True, va_opt=True, counter=0, stringize_escapes_everything=False):
        self.macros = {}
        self.stringize_escapes_everything = stringize_escapes_everything   # known deviation, see stringize()
        self.stringized = 0       # number of # evaluations whose result was one valid string literal
        self.filename = filename
        self.base_file = filename
        self.gnu_comma = gnu_comma
        self.va_opt = va_opt
        self.counter = counter
        self._argcache = {}
        self.features = set()     # which mechanisms the run exercised (used for signatures / non-triviality)
        self.steps = 0
        for b in ("__LINE__", "__FILE__", "__COUNTER__", "__BASE_FILE__"):
            self.macros[b] = Macro(b, builtin=b)

    # ---- top level -----------------------------------------------------------------------------------------
    def preprocess(self, text):
        return self.run(lex(text))

    def run(self, toks):
        """Full translation phase 4 over a token list of one file; returns output tokens."""
        src = Source(toks)
        out = []
        while True:
            if src.peek_is_file_directive():
                self._directive(src)
                continue
            t = src.next()
            if t is None:
                break
            self._step(t, src, out, toplevel=True)
        return out

    def _directive(self, src):
        hash_ = src.next()
        line = []
        while src.pos < len(src.file) and not src.file[src.pos].bol:
            line.append(src.file[src.pos])
            src.pos += 1
        if not line:
            return
        self.directive(line[0].s, line[1:], hash_)

    def directive(self, name, toks, hash_tok):
        if name == "define":
            m = parse_define(toks)
            old = self.macros.get(m.name)
            if old is not None:
                if old.builtin:
                    raise Undefined("define:builtin-redefined")
                if not old.same_as(m):
                    raise Undefined("define:incompatible-redefinition")
                self.features.add("redefinition")
            self.macros[m.name] = m
            return
        if name == "undef":
            if len(toks) != 1 or toks[0].kind != ID:
                raise Undefined("undef:operand")
            if toks[0].s in self.macros and self.macros[toks[0].s].builtin:
                raise Undefined("undef:builtin")
            self.macros.pop(toks[0].s, None)
            return
        raise Unmodelled("directive #" + name)

    # ---- Prosser's expand ----------------------------------------------------------------------------------
    def expand_list(self, toks):
        """expand(TS) on an isolated token sequence (a macro argument): nothing follows it."""
        src = Source([])
        src.push(toks)
        out = []
        while True:
            t = src.next()
            if t is None:
                return out
            self._step(t, src, out, toplevel=False)

    def _step(self, t, src, out, toplevel):
        self.steps += 1
        if self.steps > self.MAX_STEPS:
            raise Unmodelled("model step limit")
        if t.kind != ID:
            out.append(t)
            return
        m = self.macros.get(t.s)
        if m is None:
            out.append(t)
            return
        if t.s in t.hs:
            self.features.add("hideset-blocked")
            if t.org == "##":
                # 6.10.3.4p2 holds for a name however it came to be in the replacement list: this one was CREATED by ##
                self.features.add("hideset-blocked-name-created-by-##")
            out.append(t)
            return
        if t.org == "##":
            self.features.add("macro-name-created-by-##-replaced")
        for h in t.hs:
            k = similar_names(h, t.s)
            if k:
                # the hide set holds a different name that resembles this one: identity decides (6.10.3.4p2)
                self.features.add("not-hidden-by-similar-name:" + k)
        if m.builtin:
            r = self._builtin(m.builtin, t)
            r.ws, r.bol, r.hs = t.ws, t.bol, t.hs
            out.append(r)
            return
        if not m.funclike:
            self.features.add("objlike")
            res = self.subst(m, None, t.hs | frozenset([t.s]), t)
            if not res:
                self.features.add("empty-expansion")
            src.push(res)
            return
        # function-like: the next pp-token must be '(' (new-lines are white space here)
        if src.peek_is_file_directive():
            self.features.add("funclike-unapplied")
            out.append(t)
            return
        nx = src.peek()
        if nx is None or nx.s != "(" or nx.kind != PUNCT:
            self.features.add("funclike-unapplied")
            if nx is None and not toplevel:
                self.features.add("funclike-name-at-end-of-argument")
            out.append(t)
            return
        src.next()
        args, rpar = self._collect(src, m)
        self._note_unexpanded_arguments(m, args)
        if t.hs:
            self.features.add("invocation-formed-during-rescan")
            if t.hs != rpar.hs:
                self.features.add("rescan-invocation-with-mixed-hidesets")
        hs = (t.hs & rpar.hs) | frozenset([t.s])
        res = self.subst(m, args, hs, t)
        if not res:
            self.features.add("empty-expansion")
        self.features.add("funclike")
        src.push(res)

    def _note_unexpanded_arguments(self, m, args):
        """Evidence only (6.10.3.1p1: an argument is macro-expanded for a parameter that is NOT an operand of # or ##,
        so an argument whose parameter occurs only as such an operand, or not at all, is never expanded): for every
        such argument record whether expanding it on its own would have been observable - it is not a complete valid
        invocation (`T(1)` for a two-parameter T, an object-like macro ending in `T (`), or it advances __COUNTER__.
        The trial expansion leaves no trace in the state of the model."""
        if not args:
            return
        body = m.body
        if any(t.s == "__VA_OPT__" for t in body):
            return          # presence of the variable argument is itself decided by an expansion
        for name, a in args.items():
            if not a:
                continue
            how = set()
            for i, t in enumerate(body):
                if t.kind != ID or t.s != name:
                    continue
                prev = body[i - 1] if i > 0 else None
                nxt = body[i + 1] if i + 1 < len(body) else None
                if prev is not None and prev.kind == PUNCT and prev.s == "#":
                    how.add("#")
                elif ((prev is not None and prev.kind == PUNCT and prev.s == "##") or
                      (nxt is not None and nxt.kind == PUNCT and nxt.s == "##")):
                    how.add("##")
                else:
                    how.add("expanded")
            if "expanded" in how:
                continue
            saved = (self.counter, set(self.features), self.steps, dict(self._argcache))
            try:
                self.expand_list([x.copy() for x in a])
                verdict = "advances-__COUNTER__" if self.counter != saved[0] else None
            except Undefined:
                verdict = "not-a-valid-invocation-alone"
            except Unmodelled:
                verdict = None
            self.counter, self.features, self.steps, self._argcache = saved
            if verdict:
                self.features.add("unexpanded-argument:" + verdict)
                for h in sorted(how) or ["unused"]:
                    self.features.add("unexpanded-argument-of:" + {"#": "#-operand", "##": "##-operand"}.get(h, h))

    def _builtin(self, which, t):
        self.features.add("builtin:" + which)
        if which == "__LINE__":
            return Tok(str(t.oline), NUM)
        if which == "__COUNTER__":
            self.counter += 1
            return Tok(str(self.counter - 1), NUM)
        name = self.filename if which == "__FILE__" else self.base_file
        return Tok('"' + name.replace("\\", "\\\\").replace('"', '\\"') + '"', STR)

    def _collect(self, src, m):
        """Collect the arguments of an invocation of m; the '(' has been consumed.  Returns (args, rparen token)
        where args maps each parameter name (and the variadic name) to a token list, or None for a missing
        variadic argument."""
        raw = [[]]
        depth = 0
        nparams = len(m.params)
        multiline = False
        while True:
            if src.peek_is_file_directive():
                raise Undefined("directive-inside-macro-arguments")
            t = src.next()
            if t is None:
                raise Undefined("unterminated-invocation")
            if t.bol:
                multiline = True
            if t.kind == PUNCT:
                if t.s == "(":
                    depth += 1
                elif t.s == ")":
                    if depth == 0:
                        rpar = t
                        break
                    depth -= 1
                elif t.s == "," and depth == 0 and not (m.variadic and len(raw) > nparams):
                    raw.append([])
                    continue
            raw[-1].append(t)
        if multiline:
            self.features.add("invocation-spans-lines")
        if any(depth_commas(a) for a in raw):
            self.features.add("argument-with-nested-parens-or-commas")
        args = {}
        if nparams == 0 and not m.variadic:
            if len(raw) != 1 or raw[0]:
                raise Undefined("arity")
            return args, rpar
        if m.variadic:
            if len(raw) < nparams:
                raise Undefined("arity")
            if nparams == 0:
                # F() : zero-token variadic argument
                # F() with only the variadic parameter: GNU cpp treats the empty argument as omitted
                args[m.variadic] = raw[0] if raw[0] else None
                if not raw[0]:
                    self.features.add("variadic-empty")
            elif len(raw) == nparams:
                args[m.variadic] = None
                self.features.add("variadic-missing")     # C2x / GNU; C11 requires the comma
            else:
                args[m.variadic] = raw[nparams]
                if not raw[nparams]:
                    self.features.add("variadic-empty")
            for k in range(nparams):
                args[m.params[k]] = raw[k]
        else:
            if len(raw) != nparams:
                raise Undefined("arity")
            for k in range(nparams):
                args[m.params[k]] = raw[k]
        if any(not a for a in raw):
            self.features.add("empty-argument")
        return args, rpar

    # ---- substitution, #, ##, __VA_OPT__ ---------------------------------------------------------------------
    def subst(self, m, args, hs, name_tok):
        items = self._subst_items(m, m.body, args)
        res = []
        for it in items:
            if it is PLACEMARKER:
                continue
            c = it.copy()
            c.hs = it.hs | hs
            c.oline = name_tok.oline
            c.bol = False
            res.append(c)
        if res:
            res[0].ws = name_tok.ws
            res[0].bol = name_tok.bol
        return res

    def _subst_items(self, m, body, args):
        """Replace parameters in `body` and evaluate # and ##.  Returns tokens and placemarkers."""
        params = set(args) if args is not None else set()
        n = len(body)
        # pass 1: split into operands; each operand is a list of tokens/placemarkers plus flags
        ops = []          # list of ("tok"|"paste", payload)
        i = 0
        while i < n:
            t = body[i]
            if t.s == "##" and t.kind == PUNCT:
                if ops and ops[-1][0] == "paste":
                    raise Undefined("##-##-adjacent")
                if not ops or i + 1 >= n:
                    raise Undefined("##-at-end")
                ops.append(("paste", None, "body"))
                i += 1
                continue
            prev_is_paste = bool(ops) and ops[-1][0] == "paste"
            next_is_paste = False
            # find the extent of this operand to see whether it is followed by ##
            if m.funclike and t.s == "#" and t.kind == PUNCT:
                # stringification; operand is a parameter or __VA_OPT__( ... )
                nx = body[i + 1]
                if nx.s == "__VA_OPT__" and self.va_opt and m.variadic:
                    j, inner = self._va_opt_extent(body, i + 1)
                    toks = self._va_opt_value(m, inner, args)
                    s = self._stringize([x for x in toks if x is not PLACEMARKER])
                    self.features.add("stringize-va-opt")
                    end = j
                else:
                    a = args.get(nx.s)
                    s = self._stringize(a or [])
                    self.features.add("stringize")
                    if a and self._names_macro(a):
                        self.features.add("stringize-operand-contains-macro-name")
                    if a and any(x.bol for x in a[1:]):
                        self.features.add("stringize-across-newline")
                    if not a:
                        self.features.add("stringize-empty")
                    end = i + 2
                next_is_paste = end < n and body[end].s == "##" and body[end].kind == PUNCT
                if prev_is_paste or next_is_paste:
                    raise Undefined("#-and-##-order-unspecified")
                st = Tok(s, STR, t.ws, False, t.line, org="#")
                ops.append(("tok", [st], "str"))
                i = end
                continue
            if t.s == "__VA_OPT__" and self.va_opt and m.funclike and m.variadic and i + 1 < n and body[i + 1].s == "(":
                j, inner = self._va_opt_extent(body, i)
                toks = self._va_opt_value(m, inner, args)
                self.features.add("va-opt")
                if not toks:
                    toks = [PLACEMARKER]
                else:
                    toks = list(toks)
                    if toks[0] is not PLACEMARKER:
                        toks[0] = toks[0].copy()
                        toks[0].ws = t.ws
                ops.append(("tok", toks, "vaopt"))
                i = j
                continue
            if t.kind == ID and t.s in params:
                next_is_paste = i + 1 < n and body[i + 1].s == "##" and body[i + 1].kind == PUNCT
                a = args[t.s]
                is_va = (t.s == m.variadic)
                # GNU: `, ## __VA_ARGS__`
                if (prev_is_paste and is_va and self.gnu_comma and len(ops) >= 2 and ops[-2][0] == "tok"
                        and ops[-2][2] == "body" and ops[-2][1][0].s == "," and ops[-2][1][0].kind == PUNCT):
                    self.features.add("gnu-comma-paste")
                    if len(ops) >= 3 and ops[-3][0] == "paste":
                        raise Undefined("gnu-comma-is-itself-a-##-operand")
                    if next_is_paste:
                        raise Undefined("gnu-comma-followed-by-##")
                    ops.pop()          # drop the paste
                    if a is None:      # omitted entirely (GNU cpp: a present-but-empty argument keeps the
                                       # comma, which is also what 6.10.3.3 says for `, ## placemarker`)
                        ops.pop()
                        ops.append(("tok", [PLACEMARKER], "arg"))
                        self.features.add("gnu-comma-deleted")
                        if next_is_paste:
                            raise Undefined("gnu-comma-followed-by-##")
                    elif not a:
                        ops.append(("tok", [PLACEMARKER], "arg"))
                        self.features.add("gnu-comma-kept-before-empty")
                    else:
                        if next_is_paste:
                            raise Undefined("gnu-comma-followed-by-##")
                        toks = [x.copy() for x in a]
                        toks[0].ws = t.ws
                        toks[0].bol = False
                        ops.append(("tok", toks, "arg"))
                    i += 1
                    continue
                if prev_is_paste or next_is_paste:
                    # operand of ##: not macro-expanded; empty -> placemarker
                    if not a:
                        toks = [PLACEMARKER]
                        self.features.add("paste-placemarker")
                    else:
                        if self._names_macro(a):
                            self.features.add("paste-operand-contains-macro-name")
                        toks = [x.copy() for x in a]
                        toks[0].ws = t.ws
                        toks[0].bol = False
                else:
                    # 6.10.3.1: the argument is completely macro replaced (once; every further occurrence
                    # of the parameter gets the same tokens - observable only through __COUNTER__)
                    ck = (id(args), t.s)
                    if ck not in self._argcache:
                        self._argcache[ck] = (args, self.expand_list([x.copy() for x in (a or [])]))
                    else:
                        self.features.add("parameter-used-twice-expanded")
                    toks = [x.copy() for x in self._argcache[ck][1]]
                    if a:
                        self.features.add("argument-substituted")
                    if a and spell(toks) != spell(a):
                        self.features.add("argument-pre-expanded")
                    if toks:
                        toks[0].ws = t.ws
                        toks[0].bol = False
                    else:
                        toks = [PLACEMARKER]
                ops.append(("tok", toks, "arg"))
                i += 1
                continue
            ops.append(("tok", [t.copy()], "body"))
            i += 1
        # pass 2: evaluate ## chains; order of evaluation is unspecified, so require both orders to agree
        if not any(o[0] == "paste" for o in ops):
            res = []
            for o in ops:
                res.extend(o[1])
            return res
        self.features.add("paste")
        ltr = self._paste(ops, True)
        rtl = self._paste(ops, False)
        if [x.s for x in ltr] != [x.s for x in rtl]:
            raise Undefined("##-order-unspecified")
        return ltr

    def _stringize(self, toks):
        """# on an operand: stringize() plus a record of what kind of tokens the operand held (evidence / signatures)."""
        for x in toks:
            if x.kind in (STR, CHR):
                what = "string-literal" if x.kind == STR else "character-constant"
                self.features.add("stringize-" + what)
                q = x.s.index('"' if x.kind == STR else "'")
                if q:
                    self.features.add("stringize-prefixed-" + what)
                inner = x.s[q + 1:-1]
                if "\\" in inner:
                    self.features.add("stringize-%s-containing-backslash" % what)
                if '"' in inner:
                    self.features.add("stringize-%s-containing-double-quote" % what)
                if "'" in inner:
                    self.features.add("stringize-%s-containing-single-quote" % what)
                if not inner:
                    self.features.add("stringize-empty-string-literal")
                if x.org == "#":
                    self.features.add("stringize-result-of-#")      # nested quoting
                if x.hs:
                    self.features.add("stringize-literal-after-macro-replacement")     # reached # through a rescan
            elif "\\" in x.s or '"' in x.s:
                self.features.add("stringize-backslash-outside-literal")
        s = stringize(toks, self.stringize_escapes_everything)
        self.stringized += 1
        return s

    def _names_macro(self, toks):
        """Does the token list hold an identifier that names a macro and is not painted (evidence only)?"""
        return any(x.kind == ID and x.s in self.macros and x.s not in x.hs for x in toks)

    def _paste(self, ops, left_to_right):
        # flatten into a list of chains: sequences of operands joined by paste
        seq = [list(o[1]) if o[0] == "tok" else "##" for o in ops]
        if left_to_right:
            i = 0
            while i < len(seq):
                if seq[i] == "##":
                    lhs, rhs = seq[i - 1], seq[i + 1]
                    seq[i - 1:i + 2] = [self._paste2(lhs, rhs)]
                else:
                    i += 1
        else:
            i = len(seq) - 1
            while i >= 0:
                if seq[i] == "##":
                    lhs, rhs = seq[i - 1], seq[i + 1]
                    seq[i - 1:i + 2] = [self._paste2(lhs, rhs)]
                    i -= 1
                else:
                    i -= 1
        res = []
        for toks in seq:
            res.extend(toks)
        return res

    def _paste2(self, lhs, rhs):
        a, b = lhs[-1], rhs[0]
        if a is PLACEMARKER and b is PLACEMARKER:
            self.features.add("paste-both-placemarkers")
            mid = [PLACEMARKER]
        elif a is PLACEMARKER:
            mid = [b]
            if self._names_macro([b]):
                self.features.add("paste-placemarker-left-of-macro-name")
        elif b is PLACEMARKER:
            mid = [a]
            if self._names_macro([a]):
                self.features.add("paste-placemarker-right-of-macro-name")
        else:
            r = paste_spelling(a.s, b.s)
            if r is None:
                raise Undefined("paste-invalid-token")
            r.ws = a.ws
            r.line = a.line
            r.hs = a.hs & b.hs
            r.org = "##"
            self.features.add("paste-tokens")
            mid = [r]
        return lhs[:-1] + mid + rhs[1:]

    def _va_opt_extent(self, body, i):
        """body[i] is __VA_OPT__, body[i+1] is '('.  Returns (index after the matching ')', inner tokens)."""
        depth = 0
        j = i + 2
        while j < len(body):
            if body[j].kind == PUNCT and body[j].s == "(":
                depth += 1
            elif body[j].kind == PUNCT and body[j].s == ")":
                if depth == 0:
                    return j + 1, body[i + 2:j]
                depth -= 1
            j += 1
        raise Undefined("define:__VA_OPT__-unterminated")

    def _va_opt_value(self, m, inner, args):
        if any(t.s == "__VA_OPT__" for t in inner):
            raise Undefined("__VA_OPT__-nested")
        if inner and (inner[0].s == "##" or inner[-1].s == "##"):
            raise Undefined("__VA_OPT__-##-at-end")
        va = args.get(m.variadic)
        present = bool(va) and bool(self.expand_list([x.copy() for x in va]))
        if va and not present:
            self.features.add("va-opt-argument-expands-to-nothing")
        if not present:
            return []
        return [x for x in self._subst_items(m, inner, args)]


def similar_names(a, b):
    """How two different identifiers resemble each other: 'prefix' / 'suffix' (one is a proper prefix / suffix of
    the other), 'last-char' (same length, only the last character differs), 'case' (equal but for letter case),
    else ''."""
    if a == b:
        return ""
    if a.startswith(b) or b.startswith(a):
        return "prefix"
    if a.endswith(b) or b.endswith(a):
        return "suffix"
    if len(a) == len(b) and a[:-1] == b[:-1]:
        return "last-char"
    if a.lower() == b.lower():
        return "case"
    return ""


def depth_commas(arg):
    return any(t.kind == PUNCT and t.s in ("(", ",") for t in arg)


def expand_text(text, filename="<stdin>", **kw):
    pp = Preprocessor(filename, **kw)
    return pp, pp.preprocess(text)


def split_after_marker(spellings, marker_prefix):
    """Split a spelling list into {marker: [spellings until the next marker]}."""
    res = {}
    cur = None
    for s in spellings:
        if s.startswith(marker_prefix):
            cur = res.setdefault(s, [])
        elif cur is not None:
            cur.append(s)
    return res


def main(argv):
    if len(argv) >= 2 and argv[1] == "relex":
        toks = relex(sys.stdin.read())
        opts = dict(zip(argv[2::2], argv[3::2]))
        if "--after" in opts:        # keep what follows the marker token ...
            k = toks.index(opts["--after"]) + 1 if opts["--after"] in toks else len(toks)
            toks = toks[k:]
        if "--until-prefix" in opts:  # ... up to the next token with this prefix
            for k, t in enumerate(toks):
                if t.startswith(opts["--until-prefix"]):
                    toks = toks[:k]
                    break
        sys.stdout.write("".join(t + "\n" for t in toks))
        return 0
    if len(argv) >= 3 and argv[1] == "expand":
        try:
            pp, out = expand_text(open(argv[2]).read(), argv[2])
        except Undefined as e:
            print("UNDEFINED: " + e.reason)
            return 3
        sys.stdout.write("".join(t.s + "\n" for t in out))
        return 0
    sys.stderr.write(__doc__)
    return 2


if __name__ == "__main__":
    sys.exit(main(sys.argv))
