int a[4] = {[1 ... 3] = 7};
struct S { int x[3]; int y; } s = {.x[0 ... 2] = 1};
int f(void) { int b[4] = {[0 ... 3] = 2}; return b[1]; }
