/* C03 (a): generic driver.  The generated unit defines FN(tab)[] (one function per program) and FN(ntab); the node
 * table of the reference interpreter and the tape bound per program are read from the binary file argv[1]. */
#include "c03_rt.h"
extern void (*cc_tab[])(void), (*ref_tab[])(void);
extern int cc_ntab, ref_ntab;
int main(int argc, char **argv) {
  FILE *f = fopen(argc > 1 ? argv[1] : "table.bin", "rb");
  int hdr[2];
  if (!f || fread(hdr, sizeof hdr, 1, f) != 1) { fprintf(stderr, "no table\n"); return 72; }
  int n = hdr[0], nn = hdr[1];
  int (*meta)[2] = malloc(sizeof(int[2]) * (n + 1));
  Nd *nodes = malloc(sizeof(Nd) * (nn + 1));
  if (fread(meta, sizeof(int[2]), n, f) != (size_t)n || fread(nodes, sizeof(Nd), nn, f) != (size_t)nn) { fprintf(stderr, "short table\n"); return 72; }
  if (sizeof(Nd) != 20 || cc_ntab != n || ref_ntab != n) { fprintf(stderr, "table mismatch %d %d %d\n", n, cc_ntab, ref_ntab); return 72; }
  rt_init();
  long nontrivial = 0;
  for (int i = 0; i < n; i++) {
    Prog p = {meta[i][0], cc_tab[i], ref_tab[i]};
    if (explore(i, nodes, &p, meta[i][1], 0) >= 2) nontrivial++;
  }
  printf("S runs=%ld judged=%ld silent=%ld odis=%ld paths=%ld budget=%ld nontrivial=%ld undef=%ld\n", n_runs, n_judged, n_silent, n_odis, n_paths, n_budget, nontrivial, n_undef);
  return 0;
}
