long double f(long double a, long double b) { return a * b + 1.0L; }
float g(float a) { return -a; }
int h(long double a) { return a < 2 && a; }
