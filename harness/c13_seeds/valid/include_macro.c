#define H "c13_inc.h"
#include H
#define S <stddef.h>
#include S
int v = INC_VAL;
size_t z;
