"""C11 literals: value, type and encoding (C11 6.4.4 / 6.4.5), UTF-8 source reading, BOM / CRLF / splice transparency.

Families (each bounded-exhaustive, bounds in the evidence `rule`):
  int   integer constants: base {2,8,10,16} x every suffix spelling (23) x magnitudes around every typing threshold;
        value (static initializer and run time), sizeof, _Generic class, signedness  vs models/c11_literal (6.4.4.1p5)
        and the gcc twin.
  chr   character constants, prefixes {'',u,U,L}: every simple escape, every octal escape \\0..\\777 in every digit-count
        spelling, hex escapes of 1..8 digits at every element-type threshold, UCNs, raw source characters.
  str   string literals, prefixes {'',u8,u,U,L}: same escape alphabet (with every follower class that must not be
        absorbed into the escape), object bytes / sizeof / element type; pointer form and static-array form.
  cat   adjacent literal concatenation: every prefix pair and triple that 6.4.5p5 defines (same prefix, prefix+none).
  flt   floating constants: the suffix selects the type (values are C02's business); pp-number boundaries (0xf+1 vs 0xe+1).
  hdr   L / u / U literals have the types wchar_t / char16_t / char32_t of the implementation's own <stddef.h> / <uchar.h>.
  uwb   white box: the tree's unicode.c #included into harness/c11_unicode.c: encode_utf8 / decode_utf8 for all
        1 112 064 scalar values against the UTF-8 definition; is_ident1 / is_ident2 against Annex D (models/c11_literal).
  ucc   every scalar value through the real compiler: raw UTF-8 inside string literals of each prefix, as character
        constants of prefixes u/U/L, and spelled as a UCN; object bytes against Python's codecs.
  ident every Annex D character inside an identifier (first and non-first position) through the real compiler.
  src   source transparency: BOM, LF->CRLF, backslash-newline inserted at every byte position: cc1 -S output equal
        to the untransformed file's modulo .loc/.file.
  off   source transparency as a function of FILE OFFSET: a 1.4 KB seed program (literals of every prefix, 2/3/4-byte
        UTF-8 characters and UCNs in strings, character constants, identifiers and comments, escapes, directives,
        existing splices, U+FEFF in mid-file, __LINE__ probes) behind padding (one long comment / many comment lines / blank lines / one
        long string literal; main file or #included file; with/without BOM) such that a block boundary b falls between
        every two adjacent bytes of the program, in LF form, CR LF form, and with a backslash-newline (LF and CR LF)
        inserted at every byte and b before / inside / after the pair.  quick: b = 4096 slid over every byte, 8192 and
        65536 within +-2 of every marked byte (CR, LF, backslash and newline of a splice, every byte of a multi-byte
        character, backslash of a UCN / escape, every quote); thorough: every multiple of 4096 up to 128 KB (4096,
        8192, 65536, 131072 over every byte), every multiple of 512 from 2048 within +-2 of every CR / LF.  cc1 -S
        output (incl. the __LINE__ values) equal to the unpadded LF-only unspliced file's; gcc -S invariance under the
        same transformations and gcc's object bytes of the seed program as second oracle.

Nothing implementation-defined is judged: multi-character constants, escapes out of range of the element type,
mixed-prefix concatenation, wchar_t signedness, '$' in identifiers, decimal constants that fit no listed type.
"""
import json, os, re, sys, struct, hashlib
from vlib import core, twin
from models import c11_literal as M

LEVEL = "exploration"
BUDGET = {"quick": 900, "thorough": 7200}     # deadlines, not expected times

HARNESS = os.path.join(core.VERIF, "harness")
TMO = 900            # generous per-process wall limit (the machine may be heavily loaded); a timeout is never a verdict

GI = "_Generic(%s, int:1, unsigned:2, long:3, unsigned long:4, default:0)"
GLL = "_Generic(%s, int:1, unsigned:2, long long:5, unsigned long long:6, default:0)"
# chibicc merges char/signed char (like long/long long): type identity is compared up to size + signedness there
GC = ("_Generic(%s, char:10, unsigned char:12, short:13, unsigned short:14, int:1, unsigned:2, "
      "long:3, unsigned long:4, default:0)")
GF = "_Generic(%s, float:1, double:2, long double:3, default:0)"
SIGN = "((__typeof__(%s))-1 < 0)"
INTCLASS = {"int": 1, "uint": 2, "long": 3, "llong": 3, "ulong": 4, "ullong": 4}
CLASSNAME = {0: "other", 1: "int", 2: "unsigned", 3: "long", 4: "unsigned-long", 10: "char", 11: "schar", 12: "uchar",
             13: "short", 14: "ushort"}
ELEMG = {"": 10, "u8": 10, "u": 14, "U": 2, "L": None}      # element type class per string prefix (L: wchar_t, not judged)


def first_elem(by, prefix):
    """value of element 0 converted to long: plain char is signed, char16_t / char32_t unsigned; wchar_t compared mod 2^32."""
    sz = M.ELEM[prefix]
    v = int.from_bytes(by[:sz], "little")
    if sz == 1 and v >= 128:
        v -= 256
    return v


def lit(prefix, body, q='"'):
    return prefix + q + body + q


# =====================================================================================================================
#  twin families: case generation.  A case is a dict:
#   cid, fam, cls (signature class), p, n, v[6] (C expressions for the static row), rt (C expression or None),
#   decl (optional file-scope declaration), exp: {"n":..,"v":[..|None],"rt":..|None,"bytes":hex|None,"mask":int|None}
# =====================================================================================================================
def magnitudes(tier):
    vals = [0, 1, 2, 7, 8, 9, 10, 15, 16, 63, 64, 100, 255, 256]
    for t in (15, 16, 31, 32, 63):
        vals += [2**t - 2, 2**t - 1, 2**t, 2**t + 1]
    vals += [2**64 - 2, 2**64 - 1, 2**62]
    if tier == "thorough":
        for t in range(1, 64):
            vals += [2**t - 1, 2**t, 2**t + 1]
        vals += [0x5555555555555555, 0xAAAAAAAAAAAAAAAA, 0x123456789abcdef0, 0xfedcba9876543210, 1234567890123456789,
                 0x7fffffff00000000, 0xffffffff00000000, 0x80000000ffffffff, 0x00000001ffffffff]
    return sorted(set(vals))


def bucket(v):
    return "<2^31" if v < 2**31 else "<2^32" if v < 2**32 else "<2^63" if v < 2**63 else "<2^64"


def int_spellings(v, tier):
    """(base name, digits spelling, variant name)"""
    out = [("dec", str(v), "plain")] if v else []
    out += [("oct", "0%o" % v if v else "0", "plain"), ("hex", "0x%x" % v, "plain"), ("bin", "0b" + bin(v)[2:], "plain")]
    return out


def int_variants(v):
    out = [("oct", "000%o" % v, "lead0"), ("hex", "0X%X" % v, "upper"), ("hex", "0x%016x" % v, "lead0"),
           ("hex", "0x%X" % v, "upperdigits"), ("bin", "0B" + bin(v)[2:], "upper"), ("bin", "0b" + "0" * 8 + bin(v)[2:], "lead0")]
    if v:
        out.append(("hex", "0x000000000000000000%x" % v, "lead0long"))
    return out


def gen_int(tier):
    cases, skipped = [], 0
    for v in magnitudes(tier):
        forms = [(b, d, var, sfx) for (b, d, var) in int_spellings(v, tier) for cls in M.SUFFIXES for sfx in M.SUFFIXES[cls]]
        forms += [(b, d, var, sfx) for (b, d, var) in int_variants(v) for sfx in ("", "u", "L", "lu", "LL", "ULL", "llU")]
        for b, d, var, sfx in forms:
            sp = d + sfx
            pr = M.parse_int(sp)
            if pr is None or pr[1] != v:
                raise core.HarnessError("generator/model mismatch on integer spelling %r" % sp)
            base, val, scls = pr
            ty = M.int_type(base, val, scls)
            if ty is None:
                skipped += 1          # no type in the 6.4.4.1p5 list fits: extended type or constraint violation
                continue
            size, sgn = M.TYPES[ty]
            cases.append({"cid": "int/%s" % sp, "fam": "int", "cls": "%s/%s/%s" % (b, scls or "none", bucket(v)),
                          "p": "0", "n": "0", "rt": "(long)(%s)" % sp,
                          "v": ["(long)(%s)" % sp, "sizeof(%s)" % sp, GI % sp, GLL % sp, SIGN % sp, "0"],
                          "exp": {"val": val if val < 2**63 else val - 2**64, "size": size, "cls": INTCLASS[ty],
                                  "sign": 1 if sgn else 0, "type": ty},
                          "text": sp})
    return cases, skipped


def oct_spellings(v):
    m = "%o" % v
    return sorted(set([m, m.rjust(2, "0"), m.rjust(3, "0")]), key=lambda s: (len(s), s))


HEXV = {"": [0, 1, 9, 0xa, 0xf, 0x10, 0x41, 0x7f, 0x80, 0xff],
        "u": [0, 1, 0xf, 0x10, 0x7f, 0x80, 0xff, 0x100, 0x7fff, 0x8000, 0xd800, 0xdfff, 0xfffe, 0xffff],
        "U": [0, 1, 0xff, 0x100, 0xffff, 0x10000, 0x10ffff, 0x110000, 0x7fffffff, 0x80000000, 0xfffffffe, 0xffffffff]}
HEXV["u8"] = HEXV[""]
HEXV["L"] = HEXV["U"]


def hex_spellings(v, tier, full=False):
    m = "%x" % v
    out = []
    for nd in list(range(len(m), 9)) + [9, 12, 16, 17, 33]:
        out.append(m.rjust(nd, "0"))
        if m.upper() != m:
            out.append(m.upper().rjust(nd, "0"))
    return out


UCN_SAMPLE = [0x24, 0x40, 0x60, 0xa0, 0xe9, 0xff, 0x100, 0x7ff, 0x800, 0xfff, 0x1000, 0x20ac, 0xd7ff, 0xe000, 0xfeff, 0xfffd,
              0xffff, 0x10000, 0x1f600, 0xfffff, 0x100000, 0x10ffff]
RAW_SAMPLE = [0x80, 0xa2, 0xe9, 0x7ff, 0x800, 0x20ac, 0xd7ff, 0xe000, 0xfeff, 0xffff, 0x10000, 0x1f600, 0x10ffff]


def ucn_spellings(cp):
    out = []
    if cp <= 0xffff:
        out += ["\\u%04x" % cp, "\\u%04X" % cp]
    out += ["\\U%08x" % cp, "\\U%08X" % cp]
    return sorted(set(out))


def gen_chr(tier):
    cases, skipped = [], 0

    def add(prefix, body, kind):
        nonlocal skipped
        st, val = M.char_value(prefix, body.encode("utf-8"))
        if st != "ok":
            skipped += 1
            return
        C = lit(prefix, body, "'")
        tname, size, sgn = M.CHAR_TYPE[prefix]
        exp = {"val": val, "size": size, "type": tname}
        if prefix == "L":
            exp["mask32"] = True
        else:
            exp["cls"] = {"int": 1, "ushort": 14, "uint": 2}[tname]
            exp["sign"] = 1 if sgn else 0
        cases.append({"cid": "chr/%s" % C, "fam": "chr", "cls": "%s/%s" % (prefix or "plain", kind), "p": "0", "n": "0",
                      "rt": "(long)(%s)" % C, "v": ["(long)(%s)" % C, "sizeof(%s)" % C, GC % C, SIGN % C, "0", "0"],
                      "exp": exp, "text": C})
    for prefix in ("", "u", "U", "L"):
        for e in M.SIMPLE:
            add(prefix, "\\" + e, "simple")
        for c in range(0x20, 0x7f):
            if chr(c) not in "'\\":
                add(prefix, chr(c), "ascii")
        for v in range(0o1000):
            for sp in oct_spellings(v):
                add(prefix, "\\" + sp, "octal")
        hv = set(HEXV[prefix])
        if prefix == "" or tier == "thorough":
            hv |= set(range(256))
        for v in sorted(hv):
            for sp in (hex_spellings(v, tier) if v in HEXV[prefix] else ["%x" % v]):
                add(prefix, "\\x" + sp, "hex")
        for cp in UCN_SAMPLE:
            for sp in ucn_spellings(cp):
                add(prefix, sp, "ucn")
        for cp in RAW_SAMPLE:
            add(prefix, chr(cp), "raw")
    return cases, skipped


def gen_str(tier):
    cases, skipped = [], 0
    seen = set()

    def add(prefix, body, kind, arr=False):
        nonlocal skipped
        st, rp, by = M.string_bytes([(prefix, body.encode("utf-8"))])
        if st != "ok":
            skipped += 1
            return
        S = lit(prefix, body)
        key = (S, arr)
        if key in seen:
            return
        seen.add(key)
        esz = M.ELEM[prefix]
        exp = {"n": len(by), "bytes": by.hex(), "esize": esz}
        if ELEMG[prefix] is not None:
            exp["ecls"] = ELEMG[prefix]
        c = {"cid": "str%s/%s" % ("-arr" if arr else "", S), "fam": "str", "cls": "%s/%s%s" % (prefix or "plain", kind, "/array-init" if arr else ""),
             "rt": "(long)(%s)[0]" % S, "v": [GC % ("*" + S), "sizeof(*%s)" % S, "0", "0", "0", "0"], "exp": exp, "text": S}
        exp["first"] = first_elem(by, prefix)
        if arr:
            ety = {"": "char", "u8": "char", "u": "unsigned short", "U": "unsigned int", "L": "int"}[prefix]
            c["decl"] = "static %s FN(a\x7f)[] = %s;" % (ety, S)
            c["p"], c["n"] = "FN(a\x7f)", "sizeof(FN(a\x7f))"
        else:
            c["p"], c["n"] = "(const void *)%s" % S, "sizeof(%s)" % S
        cases.append(c)
    for prefix in M.PREFIXES:
        wide = M.ELEM[prefix] > 1
        for arr in (False, True):
            add(prefix, "", "empty", arr)
            add(prefix, "a", "ascii", arr)
            add(prefix, "".join("\\" + e for e in M.SIMPLE), "simple", arr)
            add(prefix, "a\\0b", "embedded-nul", arr)
            add(prefix, "\\0", "embedded-nul", arr)
            add(prefix, "'?/*//*/#", "ascii", arr)
            add(prefix, "\\\\u00e9", "escaped-backslash-before-u", arr)          # "\\u00e9": backslash, 'u', '0', '0', 'e', '9' - not a UCN
            add(prefix, "\\\\\\u00e9\\\\U0001F600", "escaped-backslash-before-u", arr)
            add(prefix, "\\\\x41\\\\101\\\\n", "escaped-backslash-before-u", arr)
            add(prefix, "".join(chr(c) for c in range(0x20, 0x7f) if chr(c) not in '"\\?'), "ascii", arr)
            add(prefix, "".join(chr(c) for c in RAW_SAMPLE), "raw", arr)
            for cp in UCN_SAMPLE:
                for sp in ucn_spellings(cp)[:1 if arr else 9]:
                    add(prefix, sp, "ucn", arr)
                    add(prefix, "x" + sp + "0", "ucn", arr)
            for v in HEXV[prefix]:
                add(prefix, "\\x%x" % v, "hex", arr)
                add(prefix, "\\%o" % v if v < 0o1000 else "a", "octal", arr)
        for e in M.SIMPLE:
            add(prefix, "\\" + e, "simple")
            add(prefix, "\\" + e + (e if e not in '"\\' else "z"), "simple")
        for v in range(0o1000 if wide else 0o400):
            for sp in oct_spellings(v):
                for fol in ("", "8", "a") + (("7", "0") if len(sp) == 3 else ()):
                    add(prefix, "\\" + sp + fol, "octal")
        hv = set(HEXV[prefix]) | set(range(256))
        for v in sorted(hv):
            for sp in (hex_spellings(v, tier) if v in HEXV[prefix] else ["%x" % v]):
                for fol in ("", "g", "\\x41", "\\0"):
                    add(prefix, "\\x" + sp + fol, "hex")
        for cp in RAW_SAMPLE:
            add(prefix, chr(cp), "raw")
            add(prefix, "a" + chr(cp) + "b", "raw")
    return cases, skipped


CAT_BODIES = ["a", "", "\\x4", "1", "\\12", "\u00e9", "\U0001F600", "\\0", "\\xff", "\\u20ac"]
CAT_BODIES3 = ["a", "", "\\x4", "1", "\u00e9"]
CAT_SEPS = [" ", "\n", "/**/", "", "macro"]


def gen_cat(tier):
    cases, skipped = [], 0

    def add(pieces, sep):
        nonlocal skipped
        st, rp, by = M.string_bytes([(p, b.encode("utf-8")) for p, b in pieces])
        if st != "ok":
            skipped += 1
            return
        if sep == "macro":        # the later pieces are produced by macro expansion (concatenation is phase 6, after expansion)
            S = lit(*pieces[0]) + "".join(" C11ID(%s)" % lit(p, b) for p, b in pieces[1:])
        else:
            S = sep.join(lit(p, b) for p, b in pieces)
        exp = {"n": len(by), "bytes": by.hex(), "esize": M.ELEM[rp]}
        if ELEMG[rp] is not None:
            exp["ecls"] = ELEMG[rp]
        exp["first"] = first_elem(by, rp)
        sepn = {" ": "sp", "\n": "nl", "/**/": "comment", "": "nosp", "macro": "macro"}[sep]
        cases.append({"cid": "cat/%s/%s" % (sepn, S), "fam": "cat", "cls": "+".join(p or "plain" for p, _ in pieces),
                      "p": "(const void *)(%s)" % S, "n": "sizeof(%s)" % S, "rt": "(long)(%s)[0]" % S,
                      "v": [GC % ("*(%s)" % S), "sizeof(*(%s))" % S, "0", "0", "0", "0"], "exp": exp, "text": S})
    pairs, triples = [], []
    for x in M.PREFIXES:
        pairs.append((x, x))
        if x:
            pairs += [(x, ""), ("", x)]
    for x in M.PREFIXES[1:]:
        for a in ("", x):
            for b in ("", x):
                for c in ("", x):
                    if (a, b, c) != ("", "", ""):
                        triples.append((a, b, c))
    triples.append(("", "", ""))
    # mixed different prefixes (5*4 ordered pairs) are implementation-defined / constraint violations: not generated
    skipped += 20
    for pa, pb in pairs:
        for ba in CAT_BODIES:
            for bb in CAT_BODIES:
                for sep in (CAT_SEPS if tier == "thorough" or (ba, bb) in (("a", "1"), ("\u00e9", "\\x4")) else [" "]):
                    if sep == "" and pb != "":
                        continue       # "a"u"b" would lex differently (identifier-like prefix glued is fine, but keep defined)
                    add([(pa, ba), (pb, bb)], sep)
    for x in M.PREFIXES:          # a piece produced by the # operator (a character string literal token) next to a prefixed literal
        for body in ("a", "\u00e9", "\\x4"):
            st, rp, by = M.string_bytes([(x, body.encode("utf-8")), ("", b"xy1")])
            for order in (0, 1):
                if order:
                    st, rp, by = M.string_bytes([("", b"xy1"), (x, body.encode("utf-8"))])
                S = (lit(x, body) + " C11STR(xy1)") if not order else ("C11STR(xy1) " + lit(x, body))
                exp = {"n": len(by), "bytes": by.hex(), "esize": M.ELEM[rp], "first": first_elem(by, rp)}
                cases.append({"cid": "cat/stringize/%s" % S, "fam": "cat", "cls": "%s+stringized" % (x or "plain") if not order else "stringized+%s" % (x or "plain"),
                              "p": "(const void *)(%s)" % S, "n": "sizeof(%s)" % S, "rt": "(long)(%s)[0]" % S,
                              "v": [GC % ("*(%s)" % S), "sizeof(*(%s))" % S, "0", "0", "0", "0"], "exp": exp, "text": S})
    for pr in triples:
        for ba in CAT_BODIES3:
            for bb in CAT_BODIES3:
                for bc in CAT_BODIES3:
                    add([(pr[0], ba), (pr[1], bb), (pr[2], bc)], " ")
    return cases, skipped


FLT = [("1.0", 1.0), ("1e3", 1e3), (".5", .5), ("5.", 5.0), ("0x1p3", 8.0), ("0x1.8p1", 3.0), ("0x.8p1", 1.0), ("0X1P-2", .25),
       ("1E+3", 1e3), ("2.5e-1", .25), ("08.5", 8.5), ("09e1", 90.0), ("00.5", .5), ("0e0", 0.0), ("1.e2", 100.0),
       ("0x1p+3", 8.0), ("0xAp0", 10.0), ("0x1.P1", 2.0), ("1e0", 1.0), ("0.0", 0.0)]


PPN = [("0xf+1", 16), ("0xa-1", 9), ("0xD+1", 14), ("0b1+1", 2), ("1+1", 2), ("0xe +1", 15), ("0xE -1", 13), ("0x1f-1", 30),
       ("07+1", 8), ("1e1+1", 11), ("1.e+1+1", 11), ("0x1p+1+1", 3), ("0x1P-1*4", 2), ("1u+1", 2), ("0xfu+1", 16), ("1L-1", 0), ("0x0e0+1", 225)]


def gen_flt(tier):
    cases = []
    for text, val in PPN:
        e = "(long)(%s)" % text
        cases.append({"cid": "ppn/%s" % text, "fam": "flt", "cls": "pp-number-boundary", "p": "0", "n": "0", "rt": e,
                      "v": [e, "0", "0", "0", "0", "0"], "exp": {"val": val}, "text": text})
    for sp0, val in FLT:
        for sfx in ("", "f", "F", "l", "L"):
            sp = sp0 + sfx
            ty = M.float_type(sp)
            g, size = {"float": (1, 4), "double": (2, 8), "ldouble": (3, 16)}[ty]
            e = "(long)((%s) * 1024)" % sp
            cases.append({"cid": "flt/%s" % sp, "fam": "flt", "cls": "suffix-%s" % (sfx.lower() or "none"), "p": "0", "n": "0", "rt": e,
                          "v": [e, "sizeof(%s)" % sp, GF % sp, "0", "0", "0"],
                          "exp": {"val": int(val * 1024), "size": size, "cls": g, "type": ty}, "text": sp})
    return cases, 0


def run_cat_constraint(ctx):
    """6.4.5p2 (constraint): a sequence of adjacent string literal tokens shall not include both a wide string literal and a
    UTF-8 string literal.  A diagnostic is required; judged only when gcc diagnoses it too."""
    wd = ctx.mkdir("catx")
    n = 0
    seqs = []
    for x in ("u", "U", "L"):
        seqs += [("u8", x), (x, "u8"), ("u8", "", x), (x, "", "u8"), ("", "u8", x), ("u8", x, "")]
    for seq in seqs:
        text = "int n = sizeof(%s);\n" % " ".join(lit(p, "ab") for p in seq)
        p = os.path.join(wd, "x.c")
        with open(p, "w") as f:
            f.write(text)
        gst, go, ge = core.run_limited(["gcc", "-std=gnu11", "-fsyntax-only", p], cwd=wd, timeout=TMO)
        if gst == 0 or gst == "timeout":
            ctx.cover(ref_rejected=1)
            continue
        st, o, e = core.run_limited([ctx.chibicc, "-cc1", "-cc1-input", p, "-cc1-output", os.path.join(wd, "x.s"), p], cwd=wd, timeout=TMO)
        if st == "timeout":
            continue
        n += 1
        cls = "+".join(q or "plain" for q in seq if q)
        if st == 0:
            ctx.violation("C11|cat|%s|constraint-6.4.5p2-not-diagnosed" % cls,
                          "`%s` mixes a UTF-8 and a wide string literal (6.4.5p2 constraint) and is accepted without a diagnostic" % text.strip(),
                          files={"x.c": text}, replay="$CHIBICC -cc1 -cc1-input x.c -cc1-output x.s x.c && exit 1; exit 0")
        elif st < 0:
            ctx.violation("C11|cat|%s|signal" % cls, "`%s` kills the compiler with signal %d" % (text.strip(), -st),
                          files={"x.c": text}, replay="$CHIBICC -cc1 -cc1-input x.c -cc1-output x.s x.c; [ $? -gt 1 ] && exit 1; exit 0")
    ctx.cover(cat_constraint_cases=n)
    return n


# ---------------------------------------------------------------------------------------------------------------------
def build_unit(cases):
    u = ["#define C11ID(x) x", "#define C11STR(x) #x", "struct VRow { const void *p; unsigned long n; long v[6]; };"]
    for i, c in enumerate(cases):
        if c.get("decl"):
            u.append(c["decl"].replace("\x7f", str(i)))
    u.append("struct VRow FN(rows)[] = {")
    for i, c in enumerate(cases):
        u.append("{ %s, %s, { %s } }," % (c["p"].replace("\x7f", str(i)), c["n"].replace("\x7f", str(i)), ", ".join(c["v"])))
    u.append("};")
    u.append("unsigned long FN(nrows) = %d;" % len(cases))
    u.append("unsigned long FN(nfill) = %d;" % len(cases))
    nf = 0
    for k in range(0, len(cases), 400):
        u.append("static void FN(fill%d)(long *o) {" % nf)
        for i in range(k, min(k + 400, len(cases))):
            if cases[i]["rt"]:
                u.append("  o[%d] = %s;" % (i, cases[i]["rt"]))
        u.append("}")
        nf += 1
    u.append("void FN(fill)(long *o) { %s }" % " ".join("FN(fill%d)(o);" % k for k in range(nf)))
    return "\n".join(u) + "\n"


DRIVER = None


def driver_src():
    global DRIVER
    if DRIVER is None:
        DRIVER = open(os.path.join(HARNESS, "c11_drv.c")).read()
    return DRIVER


class _C:
    chibicc = None


def _twin_batch(args):
    chibicc, wd, bidx, cases = args
    C = type("C", (), {"chibicc": chibicc})
    unit = build_unit(cases)
    res = twin.twin_run(C, wd, "b%d" % bidx, unit, driver_src(), run_timeout=TMO)
    if res["status"] == "ok" and res["code"] == 0:
        return bidx, "ok", res["stdout"]
    if res["status"] == "ok":
        return bidx, "drv-crash", "code=%s %s" % (res["code"], res["stderr"][-400:])
    if res["status"] == "cc-fail":
        return bidx, "cc-fail", "%s:%s %s" % (res["stage"], res["code"], res["stderr"][-600:])
    return bidx, "harness", "%s: %s" % (res.get("stage"), res.get("stderr", "")[-1500:])


def parse_side(fields):
    n, v, rt, hx = fields
    return {"n": int(n), "v": [int(x) for x in v.split(",")], "rt": None if rt == "-" else int(rt), "bytes": hx}


def judge_twin(c, cc, ref):
    """-> (verdict, deviation) ; verdict in ok / oracle / viol."""
    e = c["exp"]
    fam = c["fam"]

    def side(s, is_ref):
        o = {}
        if fam in ("int", "chr", "flt"):
            o["val"], o["size"], o["rtval"] = s["v"][0], s["v"][1], s["rt"]
            if fam == "int":
                g1, g2 = s["v"][2], s["v"][3]
                o["cls"] = g1 if g1 else {5: 3, 6: 4}.get(g2, 0)
                o["sign"] = s["v"][4]
            elif fam == "chr":
                o["cls"], o["sign"] = s["v"][2], s["v"][3]
            else:
                o["cls"] = s["v"][2]
            if e.get("mask32"):
                o["val"] &= 0xffffffff; o["rtval"] &= 0xffffffff
        else:
            o["n"], o["bytes"], o["ecls"], o["esize"], o["first"] = s["n"], s["bytes"], s["v"][0], s["v"][1], s["rt"]
            if e["esize"] == 4:
                o["first"] &= 0xffffffff
        return o
    want = dict(e)
    if "val" in want:
        if want.get("mask32"):
            want["val"] &= 0xffffffff
        want["rtval"] = want["val"]
    if "first" in want and want["esize"] == 4:
        want["first"] &= 0xffffffff
    keys = [k for k in ("cls", "size", "sign", "val", "rtval", "ecls", "esize", "n", "bytes", "first") if k in want]
    r, g = side(ref, True), side(cc, False)
    for k in keys:
        if r[k] != want[k]:
            return "oracle", "%s: gcc=%s model=%s" % (k, r[k], want[k])
    for k in keys:
        if g[k] != want[k]:
            if k in ("cls", "ecls"):
                dev = "%s got=%s want=%s" % ("type" if k == "cls" else "element-type", CLASSNAME.get(g[k], g[k]), CLASSNAME.get(want[k], want[k]))
            elif k in ("size", "esize", "n", "sign"):
                dev = "%s got=%s want=%s" % ({"size": "sizeof", "esize": "element-size", "n": "sizeof", "sign": "signedness"}[k], g[k], want[k])
            elif k == "bytes":
                dev = "bytes"
            else:
                dev = {"val": "value", "rtval": "run-time-value", "first": "element-0-read-at-run-time"}[k]
            return "viol", "%s|got %s want %s" % (dev, str(g[k])[:80], str(want[k])[:80])
    return "ok", ""


def replay_twin(casefile, outfile):
    """Used by replay scripts: exit 1 iff the recorded case still deviates."""
    c = json.load(open(casefile))
    for line in open(outfile):
        f = line.rstrip("\n").split("|")
        if len(f) == 9 and f[0] == "0":
            verdict, dev = judge_twin(c, parse_side(f[1:5]), parse_side(f[5:9]))
            return 1 if verdict == "viol" else 0
    return 0


TWIN_REPLAY = ("$CHIBICC -cc1 -DPFX=cc_ -cc1-input unit.c -cc1-output cc.s unit.c || exit 1\n"
               "as -o cc.o cc.s || exit 1\n"
               "gcc -O0 -w -std=gnu11 -fno-pie -DPFX=ref_ -c -o ref.o unit.c || exit 0\n"
               "gcc -O1 -w -fno-pie -no-pie -o drv c11_drv.c cc.o ref.o -Wl,-z,noexecstack || exit 0\n"
               "./drv > out.txt || exit 1\n"
               "python3 -c \"import sys; sys.path.insert(0, '$VERIF'); from checks import c11; sys.exit(c11.replay_twin('case.json', 'out.txt'))\"\n")
REJECT_REPLAY = "$CHIBICC -cc1 -DPFX=cc_ -cc1-input unit.c -cc1-output cc.s unit.c && as -o cc.o cc.s && exit 0; exit 1"


def bisect_ccfail(ctx, wd, cases, builder=build_unit, flags=("-DPFX=cc_",)):
    C = type("C", (), {"chibicc": ctx.chibicc})
    bad, stack, n = [], [cases], 0
    os.makedirs(wd, exist_ok=True)
    while stack and n < 120:
        cs = stack.pop()
        p = os.path.join(wd, "bis.c")
        src = twin.PRELUDE + builder(cs)
        with open(p, "w") as f:
            f.write(src)
        ok, stage, st, err = twin.cc_compile(C, p, os.path.join(wd, "bis.o"), list(flags), cwd=wd, timeout=TMO)
        n += 1
        if ok or st == "timeout":
            continue
        if len(cs) == 1:
            bad.append((cs[0], stage, st, err, src))
        else:
            stack.append(cs[len(cs) // 2:]); stack.append(cs[:len(cs) // 2])
    return bad


def run_twin_families(ctx):
    tier = ctx.tier
    allc, skipped = [], 0
    famcount = {}
    for gen in (gen_int, gen_chr, gen_str, gen_cat, gen_flt):
        cs, sk = gen(tier)
        seen, uniq = set(), []
        for c in cs:                      # variant spellings can coincide with the plain spelling (e.g. 0x5 / 0X5 upper digits)
            if c["cid"] not in seen:
                seen.add(c["cid"]); uniq.append(c)
        cs = uniq
        famcount[gen.__name__[4:]] = len(cs)
        allc += cs
        skipped += sk
    ctx.cover(skipped_undefined=skipped, twin_cases=famcount)
    per = 1500
    batches = core.chunks(allc, per)
    args = [(ctx.chibicc, os.path.join(ctx.work, "tw%d" % i), i, b) for i, b in enumerate(batches)]
    judged = odis = 0
    odis_detail = []
    outcomes = set()
    results = core.pmap(_twin_batch, args)
    for bidx, st, out in results:
        bc = batches[bidx]
        if st == "harness":
            raise core.HarnessError("reference side failed in twin batch %d: %s" % (bidx, out))
        if st == "cc-fail":
            found = bisect_ccfail(ctx, ctx.mkdir("bis%d" % bidx), bc)
            for c, stage, code, err, src in found:
                first = (err.strip().splitlines() or [""])[-1][:160]
                ctx.violation("C11|%s|%s|rejected:%s:%s" % (c["fam"], c["cls"], stage, code),
                              "valid literal rejected/crashed: %s -> %s" % (c["text"], first),
                              files={"unit.c": src}, replay=REJECT_REPLAY)
            if not found:
                ctx.incomplete("twin batch %d failed under chibicc (%s) but no single case reproduces it" % (bidx, out[:200]))
            continue
        if st == "drv-crash":
            raise core.HarnessError("driver crashed in twin batch %d: %s" % (bidx, out))
        lines = out.splitlines()
        rows = {}
        for line in lines:
            f = line.split("|")
            if len(f) == 9:
                rows[int(f[0])] = f
        if len(rows) != len(bc):
            raise core.HarnessError("twin batch %d: %d rows for %d cases: %s" % (bidx, len(rows), len(bc), lines[:2]))
        for i, c in enumerate(bc):
            f = rows[i]
            verdict, dev = judge_twin(c, parse_side(f[1:5]), parse_side(f[5:9]))
            if verdict == "oracle":
                odis += 1
                if odis <= 8:
                    odis_detail.append("%s: %s" % (c["cid"], dev))
                ctx.sample({"oracle_disagreement": c["cid"], "detail": dev}, limit=10)
                continue
            judged += 1
            outcomes.add(f[5] + f[6] + f[8][:32])
            if verdict == "viol":
                devclass, detail = dev.split("|", 1)
                if c["fam"] in ("str", "cat", "chr") and devclass in ("bytes", "value", "run-time-value"):
                    pass
                sig = "C11|%s|%s|%s" % (c["fam"], c["cls"], devclass)
                c1 = dict(c)
                ctx.violation(sig, "%s: %s (%s)" % (c["text"].encode("unicode_escape").decode(), devclass, detail.encode("unicode_escape").decode()),
                              files={"unit.c": twin.PRELUDE + build_unit([c1]), "c11_drv.c": driver_src(), "case.json": json.dumps(c1)},
                              replay=TWIN_REPLAY)
    ctx.cover(twin_judged=judged, oracle_disagreements=odis)
    if odis:
        raise core.HarnessError("model and gcc disagree on %d twin cases (see evidence samples) - the model must be corrected: %s" % (odis, "; ".join(odis_detail)))
    if judged and len(outcomes) < 50:
        raise core.HarnessError("vacuous: only %d distinct reference outcomes over %d twin cases" % (len(outcomes), judged))
    for c in (allc[0], allc[len(allc) // 3], allc[2 * len(allc) // 3], allc[-1]):
        ctx.sample({"case": c["cid"], "expected": c["exp"]}, limit=14)
    return len(allc), judged


# =====================================================================================================================
#  uwb: white box over unicode.c
# =====================================================================================================================
def build_uwb(ctx):
    wb = ctx.mkdir("uwb")
    core.sh(["cp", os.path.join(ctx.tree, "unicode.c"), wb], check=True)
    with open(os.path.join(wb, "chibicc.h"), "w") as f:
        f.write('#pragma once\n#include "%s/chibicc.h"\n' % ctx.tree)
    rc, o, e = core.sh(["gcc", "-O1", "-w", "-o", "uwb", "-I.", os.path.join(HARNESS, "c11_unicode.c")], cwd=wb)
    if rc != 0:
        raise core.HarnessError("c11_unicode.c does not build against this tree's unicode.c:\n" + e[-2000:])
    return os.path.join(wb, "uwb")


def _uwb_range(args):
    exe, lo, hi = args
    st, out, err = core.run_limited([exe, str(lo), str(hi)], timeout=TMO, binary=True)
    if st != 0:
        return lo, hi, "status=%s" % st, [], 0
    idt = M.ident_table_bytes(lo, hi)
    bad = []
    n = 0
    pos = 0
    for cp in range(lo, hi):
        if 0xD800 <= cp <= 0xDFFF:
            continue
        rec = out[pos:pos + 16]
        pos += 16
        if len(rec) < 16:
            return lo, hi, "short output", [], n
        n += 1
        want = chr(cp).encode("utf-8")
        rcp, elen = struct.unpack_from("<IB", rec, 0)
        if rcp != cp:
            return lo, hi, "record out of order", [], n
        if elen != len(want) or rec[5:5 + len(want)] != want:
            bad.append(("encode_utf8", "len%d" % len(want), "wrong-bytes" if elen == len(want) else "wrong-length" if elen < 0x80 else "error-or-overrun", cp))
        dlen, derr, idb = rec[9], rec[10], rec[11]
        dcp = struct.unpack_from("<I", rec, 12)[0]
        if derr:
            bad.append(("decode_utf8", "len%d" % len(want), "rejected", cp))
        elif dcp != cp:
            bad.append(("decode_utf8", "len%d" % len(want), "wrong-code-point", cp))
        elif dlen != len(want):
            bad.append(("decode_utf8", "len%d" % len(want), "wrong-consumed-length", cp))
        w = idt[cp - lo]
        if w != 0x80:
            if (idb & 1) != (w & 1):
                bad.append(("is_ident1", "annex-D" if cp >= 0x80 else "ascii", "accepts-disallowed" if idb & 1 else "rejects-allowed", cp))
            if (idb & 2) != (w & 2):
                bad.append(("is_ident2", "annex-D" if cp >= 0x80 else "ascii", "accepts-disallowed" if idb & 2 else "rejects-allowed", cp))
    return lo, hi, "ok", bad[:2000], n


UWB_REPLAY = ("d=$(mktemp -d); trap 'rm -rf $d' EXIT; cp $CHIBICC_DIR/unicode.c $d/ || exit 0\n"
              "printf '#pragma once\\n#include \"%s/chibicc.h\"\\n' $CHIBICC_DIR > $d/chibicc.h\n"
              "cp c11_unicode.c $d/h.c; gcc -O1 -w -I$d -o $d/uwb $d/h.c || exit 0\n"
              "$d/uwb $(cat range.txt) > $d/got.bin; cmp -s $d/got.bin expected.bin && exit 0; exit 1\n")


def expected_uwb_record(cp):
    want = chr(cp).encode("utf-8")
    w = M.ident_table_bytes(cp, cp + 1)[0]
    return struct.pack("<IB4sBBBI", cp, len(want), want, len(want), 0, w & 3, cp)


def run_uwb(ctx):
    exe = build_uwb(ctx)
    step = 0x4000
    args = [(exe, lo, min(lo + step, 0x110000)) for lo in range(0, 0x110000, step)]
    total = 0
    kinds = set()
    for lo, hi, st, bad, n in core.pmap(_uwb_range, args):
        if st != "ok":
            raise core.HarnessError("white-box unicode harness failed on [%x,%x): %s" % (lo, hi, st))
        total += n
        for fn, cls, dev, cp in bad:
            if M.ident_start(cp) is None:
                continue
            ctx.violation("C11|uwb|%s/%s|%s" % (fn, cls, dev), "unicode.c %s(U+%04X): %s" % (fn, cp, dev),
                          files={"c11_unicode.c": open(os.path.join(HARNESS, "c11_unicode.c")).read(), "range.txt": "%d %d\n" % (cp, cp + 1),
                                 "expected.bin": expected_uwb_record(cp)}, replay=UWB_REPLAY)
    if total != 1112064:
        raise core.HarnessError("white-box harness covered %d scalar values, expected 1112064" % total)
    ctx.cover(uwb_code_points=total)
    return total


# =====================================================================================================================
#  ucc: every scalar value through the compiler
# =====================================================================================================================
CHUNK = 4096
STR_EXCL = {0x00, 0x0a, 0x0d, 0x22, 0x5c}
CHR_EXCL = {0x00, 0x0a, 0x0d, 0x27, 0x5c}
CODEC = {"": "utf-8", "u8": "utf-8", "u": "utf-16-le", "U": "utf-32-le", "L": "utf-32-le"}
ETYPE = {"": "char", "u8": "char", "u": "unsigned short", "U": "unsigned int", "L": "int"}


def scalars(lo, hi):
    return [c for c in range(lo, hi) if not 0xD800 <= c <= 0xDFFF]


def ucc_unit(kind, prefix, cps_chunks):
    """kind: 'str' raw string literal (array-initializer form), 'ptr' raw string literal (anonymous object via pointer),
    'chr' array of character constants, 'ucn' string literal spelled with UCNs.  Returns (source bytes, [expected bytes])."""
    out = [b"struct VRow { const void *p; unsigned long n; long v[6]; };\n"]
    rows, exp = [], []
    for i, cps in enumerate(cps_chunks):
        if kind in ("str", "ptr", "ucn"):
            if kind == "ucn":
                body = "".join("\\u%04x" % c if c < 0x10000 else "\\U%08x" % c for c in cps).encode()
            else:
                body = "".join(map(chr, cps)).encode("utf-8")
            L = prefix.encode() + b'"' + body + b'"'
            if kind == "ptr":
                rows.append(b"{ (const void *)" + L + b", sizeof(" + L + b") },\n")
            else:
                out.append(b"static " + ETYPE[prefix].encode() + b" FN(a%d)[] = " % i + L + b";\n")
                rows.append(b"{ FN(a%d), sizeof(FN(a%d)) },\n" % (i, i))
            exp.append("".join(map(chr, cps)).encode(CODEC[prefix]) + b"\0" * M.ELEM[prefix])
        else:
            out.append(b"static " + ETYPE[prefix].encode() + b" FN(a%d)[] = {" % i +
                       b",".join(prefix.encode() + b"'" + chr(c).encode("utf-8") + b"'" for c in cps) + b"};\n")
            rows.append(b"{ FN(a%d), sizeof(FN(a%d)) },\n" % (i, i))
            exp.append("".join(map(chr, cps)).encode(CODEC[prefix]))
    out.append(b"struct VRow FN(rows)[] = {\n" + b"".join(rows) + b"};\n")
    out.append(b"unsigned long FN(nrows) = %d; unsigned long FN(nfill) = 0; void FN(fill)(long *o) {}\n" % len(rows))
    return twin.PRELUDE.encode() + b"".join(out), exp


def ucc_chunks(kind, prefix, lo, hi):
    excl = CHR_EXCL if kind == "chr" else STR_EXCL if kind in ("str", "ptr") else set()
    cps = [c for c in scalars(lo, hi) if c not in excl]
    if kind == "ucn":
        cps = [c for c in cps if M.ucn_valid(c)]
    if kind == "chr" and prefix == "u":
        cps = [c for c in cps if c < 0x10000]
    return core.chunks(cps, CHUNK)


def _cc_dump(chibicc, wd, name, src):
    """compile src (bytes) with chibicc, link the CC_ONLY dumper, run. -> (status, payload)"""
    os.makedirs(wd, exist_ok=True)
    p = os.path.join(wd, name + ".c")
    with open(p, "wb") as f:
        f.write(src)
    C = type("C", (), {"chibicc": chibicc})
    ok, stage, st, err = twin.cc_compile(C, p, os.path.join(wd, name + ".o"), ["-DPFX=cc_"], cwd=wd, timeout=TMO)
    if not ok:
        if st == "timeout":
            return "timeout", stage
        return "cc-fail", "%s:%s %s" % (stage, st, err[-300:])
    exe = os.path.join(wd, name + ".exe")
    st, out, err = core.run_limited(["gcc", "-O1", "-w", "-DCC_ONLY", "-fno-pie", "-no-pie", "-o", exe, os.path.join(HARNESS, "c11_drv.c"),
                                     name + ".o", "-Wl,-z,noexecstack"], cwd=wd, timeout=TMO)
    if st != 0:
        return "harness", "link: %s" % err[-500:]
    st, out, err = core.run_limited([exe], cwd=wd, timeout=TMO, binary=True)
    for fn in (name + ".s", name + ".o", name + ".exe"):
        try:
            os.unlink(os.path.join(wd, fn))
        except OSError:
            pass
    if st != 0:
        return "harness" if st == "timeout" else "drv-crash", "status=%s" % st
    return "ok", out


def _ref_dump(wd, name, src):
    """second oracle: the same unit compiled by gcc (as PFX=cc_ so that the CC_ONLY dumper links) -> (status, payload)"""
    os.makedirs(wd, exist_ok=True)
    p = os.path.join(wd, name + "_ref.c")
    with open(p, "wb") as f:
        f.write(src)
    exe = os.path.join(wd, name + "_ref.exe")
    st, out, err = core.run_limited(["gcc", "-O0", "-w", "-std=gnu11", "-DCC_ONLY", "-DPFX=cc_", "-fno-pie", "-no-pie", "-o", exe,
                                     os.path.join(HARNESS, "c11_drv.c"), p], cwd=wd, timeout=TMO)
    if st != 0:
        return "ref-rejected", (err if isinstance(err, str) else "")[-300:]
    st, out, err = core.run_limited([exe], cwd=wd, timeout=TMO, binary=True)
    os.unlink(exe)
    return ("ok", out) if st == 0 else ("ref-rejected", "run status %s" % st)


def split_dump(out):
    res, pos = [], 0
    while pos + 8 <= len(out):
        n = struct.unpack_from("<Q", out, pos)[0]
        pos += 8
        res.append((n, out[pos:pos + n] if n <= (1 << 27) else b""))
        pos += n if n <= (1 << 27) else 0
    return res


def _ucc_task(args):
    chibicc, wd, kind, prefix, lo, hi, refcheck = args
    args = args[:6]
    chunks = ucc_chunks(kind, prefix, lo, hi)
    if not chunks:
        return args[2:], "ok", [], 0
    src, exp = ucc_unit(kind, prefix, chunks)
    if refcheck:
        rst, rout = _ref_dump(wd, "u", src)
        if rst != "ok" or [by for _, by in split_dump(rout)] != exp:
            return args[2:], "oracle", "gcc and the Python codec model disagree (%s)" % (rout[:200] if rst != "ok" else "bytes differ"), 0
    st, out = _cc_dump(chibicc, wd, "u", src)
    if st != "ok":
        return args[2:], st, out, 0
    got = split_dump(out)
    if len(got) != len(exp):
        return args[2:], "harness", "row count %d != %d" % (len(got), len(exp)), 0
    bad = []
    for i, ((n, by), e) in enumerate(zip(got, exp)):
        if n != len(e) or by != e:
            # locate first differing code point of the chunk
            cps = chunks[i]
            k = 0
            esz = M.ELEM[prefix]
            off = 0
            first = None
            for c in cps:
                w = chr(c).encode(CODEC[prefix])
                if by[off:off + len(w)] != w:
                    first = c
                    break
                off += len(w)
            bad.append((i, first, n, len(e)))
    return args[2:], "ok", bad, sum(len(c) for c in chunks)


UCC_REPLAY = ("$CHIBICC -cc1 -DPFX=cc_ -cc1-input unit.c -cc1-output cc.s unit.c || exit 1\nas -o cc.o cc.s || exit 1\n"
              "gcc -O1 -w -DCC_ONLY -fno-pie -no-pie -o drv c11_drv.c cc.o -Wl,-z,noexecstack || exit 0\n"
              "./drv > got.bin || exit 1\ncmp -s got.bin expected.bin && exit 0; exit 1\n")


def u8len(c):
    return 1 if c < 0x80 else 2 if c < 0x800 else 3 if c < 0x10000 else 4


def ucc_plan(tier):
    planes = [0, 1, 16] if tier == "quick" else list(range(17))
    plan = []
    for pl in planes:
        lo, hi = pl << 16, (pl + 1) << 16
        for prefix in M.PREFIXES:
            plan.append(("str", prefix, lo, hi))
        for prefix in ("u", "U", "L"):
            if prefix == "u" and pl:
                continue
            plan.append(("chr", prefix, lo, hi))
        if tier == "thorough":
            for prefix in M.PREFIXES:
                plan.append(("ucn", prefix, lo, hi))
            for prefix in ("", "u", "U"):
                plan.append(("ptr", prefix, lo, hi))
        else:
            plan.append(("ucn", "u" if pl == 0 else "U", lo, hi))
            plan.append(("ucn", "u8" if pl == 0 else "u", lo, hi))
            plan.append(("ptr", "u" if pl else "L", lo, hi))
    return plan


def run_ucc(ctx):
    plan = ucc_plan(ctx.tier)
    # second oracle (gcc twin of the same unit) on planes 0 and 1; the other planes rely on the codec definitions alone
    args = [(ctx.chibicc, os.path.join(ctx.work, "ucc%d" % i), k, p, lo, hi, lo < 0x20000) for i, (k, p, lo, hi) in enumerate(plan)]
    total = 0
    done = 0
    for grp in core.chunks(args, core.NPROC * 2):
        if ctx.out_of_time(reserve=120):
            ctx.incomplete("ucc: deadline after %d of %d (kind, prefix, plane) units" % (done, len(args)))
            break
        for (kind, prefix, lo, hi), st, bad, n in core.pmap(_ucc_task, grp):
            done += 1
            if st in ("harness", "drv-crash", "oracle"):
                raise core.HarnessError("ucc unit %s/%s/%x failed: %s: %s" % (kind, prefix, lo, st, bad))
            if st == "timeout":
                ctx.incomplete("ucc unit %s/%s/plane %d timed out (not judged)" % (kind, prefix, lo >> 16))
                continue
            chunks = ucc_chunks(kind, prefix, lo, hi)
            if st == "cc-fail":
                # bisect to a chunk, then to a code point
                found = ucc_bisect(ctx, kind, prefix, chunks)
                for cp, detail, src in found:
                    ctx.violation("C11|ucc|%s/%s/utf8-len%d|rejected" % (kind, prefix or "plain", u8len(cp)),
                                  "U+%04X as %s with prefix '%s' rejected/crashed: %s" % (cp, kind, prefix, detail),
                                  files={"unit.c": src}, replay=REJECT_REPLAY)
                if not found:
                    ctx.incomplete("ucc unit %s/%s/plane %d fails under chibicc (%s) but no single code point reproduces it" % (kind, prefix, lo >> 16, str(bad)[:200]))
                continue
            total += n
            for i, first, gn, en in bad:
                cp = first if first is not None else chunks[i][-1]
                dev = "wrong-size" if gn != en and first is None else "wrong-code-units"
                src, exp = ucc_unit(kind, prefix, [[cp]])
                ctx.violation("C11|ucc|%s/%s/utf8-len%d%s|%s" % (kind, prefix or "plain", u8len(cp), "/supplementary" if cp > 0xffff and prefix == "u" else "", dev),
                              "U+%04X (first of chunk %d) as %s with prefix '%s': object bytes differ from %s" % (cp, i, kind, prefix, CODEC[prefix]),
                              files={"unit.c": src, "c11_drv.c": driver_src(),
                                     "expected.bin": b"".join(struct.pack("<Q", len(e)) + e for e in exp)}, replay=UCC_REPLAY)
    ctx.cover(ucc_code_point_instances=total, ucc_units=done)
    if total == 0:
        raise core.HarnessError("vacuous: no code point went through the compiler")
    return total


def ucc_bisect(ctx, kind, prefix, chunks):
    wd = ctx.mkdir("uccbis")
    C = type("C", (), {"chibicc": ctx.chibicc})

    def fails(cps_chunks):
        src, _ = ucc_unit(kind, prefix, cps_chunks)
        p = os.path.join(wd, "b.c")
        with open(p, "wb") as f:
            f.write(src)
        ok, stage, st, err = twin.cc_compile(C, p, os.path.join(wd, "b.o"), ["-DPFX=cc_"], cwd=wd, timeout=TMO)
        if ok or st == "timeout":
            return None
        return "%s:%s %s" % (stage, st, (err.strip().splitlines() or [""])[-1][:120]), src
    found = []
    for ch in chunks:
        if len(found) >= 3:
            break
        if not fails([ch]):
            continue
        cps = ch
        while len(cps) > 1:
            a, b = cps[:len(cps) // 2], cps[len(cps) // 2:]
            cps = a if fails([a]) else b
        r = fails([cps])
        if r:
            found.append((cps[0], r[0], r[1]))
    return found


# =====================================================================================================================
#  hdr: the types the standard names for prefixed literals are the implementation's own typedefs
# =====================================================================================================================
HDR_UNITS = [
    ("wchar_t-of-stddef.h-vs-L-literals", "#include <stddef.h>\n",
     ["_Generic(L'a', wchar_t:1, default:0)", "_Generic(L\"a\"[0], wchar_t:1, default:0)", "_Generic(&L\"a\"[0], wchar_t *:1, default:0)",
      "sizeof(wchar_t) == sizeof(L'a')", "((wchar_t)-1 < 0) == ((__typeof__(L'a'))-1 < 0)",
      "((wchar_t)-1 < 0) == ((__typeof__(L\"a\"[0]))-1 < 0)"]),
    ("char16_t-char32_t-of-uchar.h-vs-u-U-literals", "#include <uchar.h>\n",
     ["_Generic(u'a', char16_t:1, default:0)", "_Generic(U'a', char32_t:1, default:0)", "_Generic(u\"a\"[0], char16_t:1, default:0)",
      "_Generic(U\"a\"[0], char32_t:1, default:0)", "sizeof(char16_t) == sizeof(u'a')", "sizeof(char32_t) == sizeof(U'a')"]),
    ("size_t-vs-sizeof-literal", "#include <stddef.h>\n",
     ["_Generic(sizeof(\"a\"), size_t:1, default:0)", "_Generic(sizeof('a'), size_t:1, default:0)", "_Generic(sizeof(1), size_t:1, default:0)",
      "('\\377' < 0) == ((char)-1 < 0)", "'\\377' == (char)255",
      "L'\\xffffffff' == (wchar_t)0xffffffff"]),
]


def run_hdr(ctx):
    """6.4.4.4p11 / 6.4.5p6: L'x' and the elements of L"..." have type wchar_t, u/U literals char16_t / char32_t, *as defined by the
    implementation's own headers*.  Judged only when the same unit gives all-ones under gcc with gcc's headers (sanity of the probe)
    and chibicc can compile the header at all."""
    wd = ctx.mkdir("hdr")
    n = 0
    for name, inc, probes in HDR_UNITS:
        src = (inc + twin.PRELUDE + "struct VRow { const void *p; unsigned long n; long v[6]; };\n"
               "static int FN(t)[] = { %s };\n" % ",\n  ".join(probes) +
               "struct VRow FN(rows)[] = { { FN(t), sizeof(FN(t)) } };\nunsigned long FN(nrows) = 1, FN(nfill) = 0;\nvoid FN(fill)(long *o) {}\n")
        exp = b"".join(struct.pack("<i", 1) for _ in probes)
        rst, rout = _ref_dump(wd, "h", src.encode())
        if rst != "ok" or split_dump(rout)[0][1] != exp:
            ctx.cover(ref_rejected=1)
            continue
        # does the header alone compile?  (a libc header chibicc cannot parse is not this property's business)
        st0, _ = _cc_dump(ctx.chibicc, wd, "h0", (inc + twin.PRELUDE + "struct VRow { const void *p; unsigned long n; long v[6]; };\n"
                                                  "struct VRow FN(rows)[1]; unsigned long FN(nrows) = 0, FN(nfill) = 0; void FN(fill)(long *o) {}\n").encode())
        if st0 != "ok":
            ctx.cover(hdr_header_not_compilable=1)
            continue
        st, out = _cc_dump(ctx.chibicc, wd, "h", src.encode())
        if st == "timeout":
            continue
        if st in ("harness", "drv-crash"):
            raise core.HarnessError("hdr unit %s: %s %s" % (name, st, out))
        n += len(probes)
        if st == "cc-fail":
            ctx.violation("C11|hdr|%s|rejected" % name, "probe unit rejected: %s" % out[-200:], files={"unit.c": src}, replay=REJECT_REPLAY)
            continue
        got = split_dump(out)[0][1]
        if got != exp:
            vals = struct.unpack("<%di" % (len(got) // 4), got) if len(got) % 4 == 0 else ()
            failing = [p for p, v in zip(probes, vals) if v != 1]
            ctx.violation("C11|hdr|%s|type-mismatch" % name,
                          "with the implementation's own headers these are not 1: %s" % "; ".join(failing),
                          files={"unit.c": src, "c11_drv.c": driver_src(), "expected.bin": struct.pack("<Q", len(exp)) + exp}, replay=UCC_REPLAY)
    ctx.cover(hdr_probes=n)
    return n


# =====================================================================================================================
#  ident: Annex D characters inside identifiers through the compiler
# =====================================================================================================================
def ident_cps(tier, pos):
    """pos 'first' / 'later'.  quick: both ends (+-1 inside) of every maximal allowed range and the BMP in full;
    thorough: every allowed character."""
    ok = M.ident_start if pos.endswith("first") else M.ident_cont
    if tier == "thorough":
        return [c for c in scalars(0x80, 0x110000) if ok(c)]
    cps = set(c for c in scalars(0x80, 0x10000) if ok(c))
    for lo, hi in M.ANNEX_D1 + M.ANNEX_D2:
        for c in (lo, lo + 1, hi - 1, hi, (lo + hi) // 2):
            if ok(c):
                cps.add(c)
    return sorted(cps)


def ident_unit(pos, cps):
    """pos: 'first' / 'later' (raw UTF-8 in declaration and use), 'ucn-first' / 'ucn-later' (declared with the UCN
    spelling, used with the raw character: 6.4.2.1p3 - same identifier)."""
    first = pos.endswith("first")
    names = [(chr(c) + "x%x" % c) if first else ("x%x" % c + chr(c) + "y") for c in cps]
    dnames = names
    if pos.startswith("ucn"):
        u = ["\\u%04x" % c if c < 0x10000 else "\\U%08x" % c for c in cps]
        dnames = [(uc + "x%x" % c) if first else ("x%x" % c + uc + "y") for uc, c in zip(u, cps)]
    out = ["struct VRow { const void *p; unsigned long n; long v[6]; };"]
    out.append("enum { " + ",\n".join("%s = %d" % (nm, c) for nm, c in zip(dnames, cps)) + " };")
    out.append("static unsigned int FN(t)[] = { " + ",\n".join(names) + " };")
    out.append("struct VRow FN(rows)[] = { { FN(t), sizeof(FN(t)) } };")
    out.append("unsigned long FN(nrows) = 1; unsigned long FN(nfill) = 0; void FN(fill)(long *o) {}")
    return (twin.PRELUDE + "\n".join(out) + "\n").encode("utf-8"), b"".join(struct.pack("<I", c) for c in cps)


def _ident_task(args):
    chibicc, wd, pos, cps, refcheck = args
    src, exp = ident_unit(pos, cps)
    if refcheck:
        rst, rout = _ref_dump(wd, "id", src)
        if rst != "ok" or split_dump(rout)[0][1] != exp:
            return pos, cps, "oracle", "gcc does not accept the Annex D transcription: %s" % (rout[-300:] if rst != "ok" else "values differ")
    st, out = _cc_dump(chibicc, wd, "id", src)
    if st != "ok":
        return pos, cps, st, out
    got = split_dump(out)
    if len(got) != 1:
        return pos, cps, "harness", "rows"
    return pos, cps, "ok" if got[0][1] == exp else "differ", ""


NEG_SAMPLE = None


def ident_negative_cps():
    """boundary characters just outside every allowed range (must not be accepted inside an identifier)."""
    cps = set()
    for lo, hi in M.ANNEX_D1:
        for c in (lo - 1, hi + 1):
            if c >= 0xA0 and not 0xD800 <= c <= 0xDFFF and c <= 0x10FFFF and M.ident_cont(c) is False:
                cps.add(c)
    return sorted(cps)


def run_ident(ctx):
    tasks = []
    n = 0
    for pos in ("first", "later", "ucn-first", "ucn-later"):
        cps = ident_cps(ctx.tier, pos)
        for ch in core.chunks(cps, 16384):
            tasks.append((ctx.chibicc, os.path.join(ctx.work, "id%d" % len(tasks)), pos, ch, ch[0] < 0x20000))
    C = type("C", (), {"chibicc": ctx.chibicc})
    for pos, cps, st, detail in core.pmap(_ident_task, tasks):
        if st in ("harness", "drv-crash", "oracle"):
            raise core.HarnessError("ident unit failed: %s: %s" % (st, detail))
        if st == "timeout":
            ctx.incomplete("ident unit timed out (not judged)")
            continue
        if st == "ok":
            n += len(cps)
            continue
        # bisect to single characters
        wd = ctx.mkdir("idbis")

        def bad(sub):
            src, exp = ident_unit(pos, sub)
            s, o = _cc_dump(ctx.chibicc, wd, "b", src)
            if s == "ok":
                g = split_dump(o)
                return None if g and g[0][1] == exp else ("wrong-value", src, exp)
            if s == "cc-fail":
                return ("rejected", src, exp)
            return None
        stack, found = [cps], []
        while stack and len(found) < 4:
            sub = stack.pop()
            r = bad(sub)
            if not r:
                continue
            if len(sub) == 1:
                found.append((sub[0], r))
            else:
                stack.append(sub[len(sub) // 2:]); stack.append(sub[:len(sub) // 2])
        for cp, (dev, src, exp) in found:
            ctx.violation("C11|ident|%s-position/annex-D|%s" % (pos, dev), "U+%04X in %s position of an identifier: %s" % (cp, pos, dev),
                          files={"unit.c": src, "c11_drv.c": driver_src(), "expected.bin": struct.pack("<Q", len(exp)) + exp}, replay=UCC_REPLAY)
        if not found:
            ctx.incomplete("an identifier unit failed (%s) but no single character reproduces it" % st)
    # UCN spelling designates the same identifier as the raw character (6.4.2.1p3)
    wd = ctx.mkdir("idn")
    samp = [c for c in UCN_SAMPLE if c >= 0xA0 and M.ident_start(c)]
    src = twin.PRELUDE + "struct VRow { const void *p; unsigned long n; long v[6]; };\n"
    src += "".join("static int %sq = %d;\n" % ("\\u%04x" % c if c < 0x10000 else "\\U%08x" % c, c) for c in samp)
    src += "struct VRow FN(rows)[] = { %s };\n" % ", ".join("{ &%sq, sizeof(int) }" % chr(c) for c in samp)
    src += "unsigned long FN(nrows) = %d, FN(nfill) = 0;\nvoid FN(fill)(long *o) {}\n" % len(samp)
    st, out = _cc_dump(ctx.chibicc, wd, "n", src.encode("utf-8"))
    if st == "cc-fail":
        ctx.violation("C11|ident|ucn-spelling|rejected", "identifier declared with a UCN and used with the raw character is rejected: %s" % out[:200],
                      files={"unit.c": src}, replay=REJECT_REPLAY)
    elif st == "ok":
        got = [by for _, by in split_dump(out)]
        for c, by in zip(samp, got):
            if by != struct.pack("<i", c):
                ctx.violation("C11|ident|ucn-spelling|wrong-object", "identifier spelled \\u%04x and U+%04X designate different objects" % (c, c),
                              files={"unit.c": src, "c11_drv.c": driver_src(),
                                     "expected.bin": b"".join(struct.pack("<Qi", 4, x) for x in samp)}, replay=UCC_REPLAY)
        n += len(samp)
    elif st != "timeout":
        raise core.HarnessError("ident UCN unit: %s %s" % (st, out))
    # negative direction: a character just outside every Annex D range inside an identifier must be diagnosed
    neg = 0
    for c in ident_negative_cps():
        p = os.path.join(wd, "neg.c")
        text = "int x%sy = 1;\n" % chr(c)
        with open(p, "w", encoding="utf-8") as f:
            f.write(text)
        gst, go, ge = core.run_limited(["gcc", "-std=gnu11", "-fsyntax-only", p], cwd=wd, timeout=TMO)
        if gst == 0:
            ctx.cover(ident_negative_ref_accepts=1)
            continue
        st, o, e = core.run_limited([ctx.chibicc, "-cc1", "-cc1-input", p, "-cc1-output", os.path.join(wd, "neg.s"), p], cwd=wd, timeout=TMO)
        if st == "timeout":
            continue
        neg += 1
        if st == 0:
            ctx.violation("C11|ident|non-annex-D-character|accepted", "U+%04X is not allowed in identifiers (Annex D) but `x%sy` is accepted" % (c, chr(c)),
                          files={"neg.c": text}, replay="$CHIBICC -cc1 -cc1-input neg.c -cc1-output neg.s neg.c && exit 1; exit 0")
        elif isinstance(st, int) and st < 0:
            ctx.violation("C11|ident|non-annex-D-character|signal", "U+%04X inside an identifier kills the compiler with signal %d" % (c, -st),
                          files={"neg.c": text}, replay="$CHIBICC -cc1 -cc1-input neg.c -cc1-output neg.s neg.c; [ $? -gt 1 ] && exit 1; exit 0")
    ctx.cover(ident_characters=n, ident_negative_boundaries=neg)
    return n + neg


# =====================================================================================================================
#  src: source transparency
# =====================================================================================================================
SEEDS = {
    "s1": r'''#define ADD(a, b) ((a) + (b))
#define STR(x) #x
#define CAT(a, b) a ## b
#include "c11_inc.h"
/* block comment with "quote" and 'q' and // inside */
// line comment with /* inside
static int tab[] = { 0x1F, 017, 0b101, 42u, 7L, 'a', '\n', '\\', '\'', L'w', u'x', U'y' };
const char *s1 = "str\twith\\esc\"apes\x41\101" "and concat";
const char *s2 = STR(a + b  c);
double d = 1.5e+3 + 0x1p-2 + .5f + 1.L;
int CAT(na, me) = ADD(
  1,
  2);
int idé = 3;
int f(int x) { return x ? ADD(x, INC) : name - idé + tab[x & 7] + s1[0] + s2[1]; }
''',
    "s2": r'''#if defined(X) || 1 > 2
# define Y 1
#elif 0
#error no
#else
#  define Y 2
#endif
#ifndef Z
#define Z(...) __VA_ARGS__
#endif
unsigned short u16[] = u"π\u00e9\\";
unsigned int u32[] = U"😀\U0001F600";
char u8s[] = u8"é";
int w[] = L"wide";
struct S { int a:3; char c; } s = { 1, 'c' };
int g(void) { int r = Z(1) + Z(2 ) ; r <<= 2; r += s.a++ ; r = r >= 2 ? r-- : -r; return r+0; }
''',
    "s3": r'''typedef unsigned long ul;
enum { A = 1, B = A << 2, C = 'c' };
#define EMPTY
#define LONGDEF(a, b) \
   ((a) * 2 + \
    (b))
#define F(x, y) x EMPTY y
#pragma once
static ul h(ul v) { /* c1 */ switch (v) { case A: return F(v, + 1); // c2
  case B ... 9: return v %= 3, v; default: break; } return v != 0 && v <= 0xffffffffffffffffUL ? 1.0e0 : 0; }
char c2[] = "a" /* between */ "b" // tail
  "c";
int (*fp)(void), arr[sizeof(ul) == 8 ? 2 : -1], ld = LONGDEF(3,
  4);
char c3[] = "spliced \
string";
''',
}
SRC_INC = "#define INC 1\n#define INC2(x) ((x) + INC)\n/* comment */ // another\nstatic int inc_v = INC2('\\t');\n"


def strip_asm(s):
    return b"\n".join(l for l in s.split(b"\n") if not re.match(rb"\s*\.(loc|file)\b", l))


def _cc1_S(chibicc, wd, name, data):
    p = os.path.join(wd, name)
    with open(p, "wb") as f:
        f.write(data)
    o = p + ".s"
    st, out, err = core.run_limited([chibicc, "-cc1", "-cc1-input", p, "-cc1-output", o, p], cwd=wd, timeout=TMO)
    if st != 0:
        return st, err[-200:].encode() if isinstance(err, str) else err
    with open(o, "rb") as f:
        return 0, strip_asm(f.read())


def src_variants(name, base, tier):
    """yield (variant class, description, bytes, judged)"""
    if b"c11_inc.h" in base:
        inc = SRC_INC.encode()
        yield "inc-bom", "UTF-8 BOM prepended to the included file", base, True, b"\xef\xbb\xbf" + inc
        yield "inc-crlf", "included file LF -> CRLF", base, True, inc.replace(b"\n", b"\r\n")
        for i in range(len(inc)):
            yield "inc-splice", "backslash-newline inserted at byte %d of the included file" % i, base, True, inc[:i] + b"\\\n" + inc[i:]
    yield "bom", "UTF-8 BOM prepended", b"\xef\xbb\xbf" + base, True
    crlf = base.replace(b"\n", b"\r\n")
    yield "crlf", "LF -> CRLF", crlf, True
    yield "bom+crlf", "BOM and CRLF", b"\xef\xbb\xbf" + crlf, True
    yield "lone-cr", "LF -> CR (not judged)", base.replace(b"\n", b"\r"), False
    for i in range(len(base)):          # i == len(base) would make the file end in backslash-newline (undefined, 5.1.1.2p1.2)
        if i > 0 and base[i - 1] == 0x5c and base[i] == 0x0a:
            continue
        yield "splice", "backslash-newline inserted at byte %d" % i, base[:i] + b"\\\n" + base[i:], True
    if tier == "thorough":
        for i in range(len(base)):
            if i > 0 and base[i - 1] == 0x5c and base[i] == 0x0a:
                continue
            yield "splice-crlf", "backslash-CRLF inserted at byte %d of the CRLF file" % i, \
                (base[:i] + b"\\\n" + base[i:]).replace(b"\n", b"\r\n"), True
            if name.startswith("tree-"):
                continue
            if i + 1 < len(base):
                yield "splice2", "two splices at bytes %d and %d" % (i, i + 1), base[:i] + b"\\\n" + base[i:i + 1] + b"\\\n" + base[i + 1:], \
                    not (base[i] == 0x5c and base[i + 1] == 0x0a)
            yield "splice-bom", "BOM and splice at byte %d" % i, b"\xef\xbb\xbf" + base[:i] + b"\\\n" + base[i:], True


def splice_context(base, i):
    """token-ish context class of byte offset i for the signature."""
    text = base[:i]
    line = base[base.rfind(b"\n", 0, i) + 1:]
    line = line[:line.find(b"\n")] if b"\n" in line else line
    if base[i] >= 0x80 and (base[i] & 0xC0) == 0x80:
        return "inside-utf8-sequence"
    if line.lstrip().startswith(b"#"):
        return "directive-line"
    return "text-line"


def _src_task(args):
    chibicc, wd, name, base, variants, extra = args
    os.makedirs(wd, exist_ok=True)
    for fn, data in extra.items():
        with open(os.path.join(wd, fn), "wb") as f:
            f.write(data)
    with open(os.path.join(wd, "c11_inc.h"), "w") as f:
        f.write(SRC_INC)
    st0, ref = _cc1_S(chibicc, wd, name + ".c", base)
    if st0 != 0:
        return name, "base-fail", "%s %s" % (st0, ref), [], 0, 0
    bad, n, unj = [], 0, 0
    for v in variants:
        cls, desc, data, judged = v[:4]
        with open(os.path.join(wd, "c11_inc.h"), "wb") as f:
            f.write(v[4] if len(v) > 4 else SRC_INC.encode())
        st, got = _cc1_S(chibicc, wd, name + ".c", data)
        if st == "timeout":
            continue
        if not judged:
            unj += 1
            continue
        n += 1
        if st != 0:
            bad.append((cls, desc, data, "rejected" if isinstance(st, int) and st > 0 else "signal", v[4] if len(v) > 4 else None))
        elif got != ref:
            bad.append((cls, desc, data, "different-code", v[4] if len(v) > 4 else None))
    return name, "ok", "", bad, n, unj


SRC_REPLAY = ("mkdir a b; cp base.c a/t.c; cp variant.c b/t.c; cp c11_inc.h a/; cp variant_inc.h b/c11_inc.h\n"
              "[ -d extra ] && cp extra/* a/ && cp extra/* b/\n"
              "(cd a && $CHIBICC -cc1 -cc1-input t.c -cc1-output t.s t.c) || exit 0\n"
              "(cd b && $CHIBICC -cc1 -cc1-input t.c -cc1-output t.s t.c) || exit 1\n"
              "grep -v -E '^[[:space:]]*\\.(loc|file)' a/t.s > a.s; grep -v -E '^[[:space:]]*\\.(loc|file)' b/t.s > b.s\n"
              "cmp -s a.s b.s && exit 0; exit 1\n")


TREE_SEEDS = ["literal.c", "string.c", "unicode.c"]
LINE_DEPENDENT = re.compile(rb"__(LINE|DATE|TIME|FILE|TIMESTAMP|BASE_FILE|INCLUDE_LEVEL)__")


def run_src(ctx):
    tasks = []
    seeds = dict((k, v.encode("utf-8")) for k, v in SEEDS.items())
    extra = {}
    if ctx.tier == "thorough":      # the tree's own literal-heavy test programs as further seeds (if free of line-dependent macros)
        th = os.path.join(ctx.tree, "test", "test.h")
        if os.path.exists(th):
            extra["test.h"] = open(th, "rb").read()
            for fn in TREE_SEEDS:
                fp = os.path.join(ctx.tree, "test", fn)
                if os.path.exists(fp):
                    data = open(fp, "rb").read()
                    if not LINE_DEPENDENT.search(data) and not LINE_DEPENDENT.search(extra["test.h"]) and data.endswith(b"\n"):
                        seeds["tree-" + fn[:-2]] = data
    ctx.cover(src_seeds=sorted(seeds))
    for name, base in sorted(seeds.items()):
        vs = list(src_variants(name, base, ctx.tier))
        for k, part in enumerate(core.chunks(vs, 200)):
            tasks.append((ctx.chibicc, os.path.join(ctx.work, "src_%s_%d" % (name, k)), name, base, part, extra))
    total = unj = 0
    results = []
    for gi, grp in enumerate(core.chunks(tasks, core.NPROC * 2)):
        if ctx.out_of_time(reserve=120):
            ctx.incomplete("src: deadline after %d of %d variant batches" % (gi * core.NPROC * 2, len(tasks)))
            break
        results += core.pmap(_src_task, grp)
    for name, st, detail, bad, n, u in results:
        if st != "ok":
            raise core.HarnessError("source-transparency seed %s does not compile with chibicc: %s" % (name, detail))
        total += n
        unj += u
        base = seeds[name]
        for cls, desc, data, dev, incdata in bad:
            ctxcls = ""
            m = re.search(r"at bytes? (\d+)", desc)
            if m and cls.startswith("splice"):
                ctxcls = "/" + splice_context(base, int(m.group(1)))
            ctx.violation("C11|src|%s%s|%s" % (cls, ctxcls, dev), "%s: %s -> %s" % (name, desc, dev),
                          files=dict({"base.c": base, "variant.c": data, "c11_inc.h": SRC_INC,
                                      "variant_inc.h": incdata if incdata is not None else SRC_INC},
                                     **dict(("extra/" + k, v) for k, v in extra.items())), replay=SRC_REPLAY)
    ctx.cover(src_variants_judged=total, src_variants_exercised_not_judged=unj)
    if total < 500:
        raise core.HarnessError("vacuous: only %d source variants judged" % total)
    return total


# =====================================================================================================================
#  off: source transparency as a function of FILE OFFSET (large files)
#
#  The src family deviates small files (< 1.5 KB) at every byte.  Here the files are large: a seed program rich in
#  literals, multi-byte characters, UCNs, comments, directives and existing splices is preceded by padding so that a
#  chosen offset b ("boundary": a multiple of 512; quick 4096, 8192, 65536) falls between EVERY two adjacent bytes of
#  the program (j = 0 .. len: b is the file offset of byte j of the program), in the forms
#     lf           the program as is (every byte of every UTF-8 sequence, UCN, escape, literal, quote, comment, existing
#                  splice ... lands on b-1 / b)
#     crlf         every line end (padding included) CR LF          (the CR, the LF of each pair land on b-1 / b ...)
#     splice       a backslash-newline inserted at byte i, b just before / inside / just after the inserted pair
#     splice-crlf  the same in the CR LF file (backslash CR LF), b at each of the 4 places
#  x padding kind {comment: one long /* */ line, lines: many // lines, blank: empty lines, string: one long string
#  literal object} x where {main file, #included file} x {no BOM, BOM}.
#  Oracle: cc1 -S output (modulo .loc/.file) equals that of the unpadded-equivalent LF-only unspliced file (same padding
#  kind, 64 bytes of it; for the string kind the same pad object with the program pushed 2048 bytes further).  The lf /
#  crlf forms carry three __LINE__ probes whose values are part of the object data (line structure is part of the
#  transparency claim: CR LF is ONE line end); padding of more than one line is followed by `#line 2`.
#  Second oracle: gcc -S is invariant under the same transformation (crlf per padding kind, BOM, splice at the checked
#  insertion points; a point gcc does not agree on is skipped and counted) and the unpadded program linked with
#  harness/c11_off_drv.c prints the same object bytes when compiled by chibicc and by gcc.
# =====================================================================================================================
OFF_PROG = r"""#define OFFSTR(x) #x
#define OFFCAT(a, b) a ## b
#define OFFLONG(a, b) \
  ((a) * 2 + \
   (b))
#if defined(OFFSTR) && 2 > 1 /* é in a comment π 😀 */
# define OFFY 0x1F // line comment é€😀
#else
# error no
#endif
/* block comment
   over "lines" with 'q' é € 😀
*/
const char off_s1[] = "é€😀 \u00e9\u20ac\U0001F600 \x41\101\n\\";
const unsigned short off_s2[] = u"é€😀\u00E9\U0001F600";
const unsigned int off_s3[] = U"é€😀\u20ac﻿|";   /* U+FEFF inside a file is a character, not a BOM: ﻿ */
const int off_s4[] = L"é€😀\U0001f600";
@PROBE1@
const char off_s5[] = u8"aé" "€b" /* between */ "😀"
  "\u00e9";
const char off_s6[] = "spliced \
string\
";
const int off_c[] = { 'a', '\n', '\\', '\'', '\x7f', '\177', L'é', u'€', U'😀', L'\u00e9', u'\u20AC', U'\U0001F600' };
int off_idé = 3, off_\u00e8x = 4, off_€😀 = 5;
const char off_s7[] = OFFSTR(é "q" 'c'  +);
const double off_d = 1.5e+3 + 0x1p-2 + .5f;
const long off_n = OFFLONG(OFFY, 017) + OFFCAT(0b1, 01) + 42u + 7L;
int off_f(int x) { return x ? off_idé + x : off_\u00e8x + off_€😀 + off_s1[x & 7]; }
@PROBE2@
#define T(x) { x, sizeof x },
#define V(x) { &x, sizeof x },
const struct { const void *p; unsigned long n; } off_tab[] = { T(off_s1) T(off_s2) T(off_s3) T(off_s4) T(off_s5) T(off_s6)
  T(off_s7) T(off_c) V(off_d) V(off_n) V(off_line1) T(off_line2) { 0, 0 } };
"""


_OFF_CACHE = {}


def off_prog(probes):
    if ("prog", probes) not in _OFF_CACHE:
        _OFF_CACHE[("prog", probes)] = _off_prog(probes)
    return _OFF_CACHE[("prog", probes)]


def _off_prog(probes):
    """the seed program, LF only; probes=True: with __LINE__ probes (forms that keep the physical line structure)."""
    s = OFF_PROG.replace("@PROBE1@", "const int off_line1 = __LINE__;" if probes else "const int off_line1 = 0;")
    s = s.replace("@PROBE2@", "const int off_line2[] = { __LINE__,\n  __LINE__ };" if probes else "const int off_line2[] = { 0,\n  0 };")
    return s.encode("utf-8")


OFF_PADS = ("comment", "lines", "blank", "string")
OFF_STRPAD_OVERHEAD = len(b'const char off_pad[] = "";')
OFF_BOM = b"\xef\xbb\xbf"


def off_pad(kind, n, eol):
    """exactly n bytes of padding that is -S neutral (kinds comment / lines / blank) or one object (kind string);
    every line of it ends in eol.  None when n is too small for the kind."""
    e = len(eol)
    if kind == "comment":
        return b"/*" + b"x" * (n - 4 - e) + b"*/" + eol if n >= 4 + e else None
    if kind == "string":
        m = n - OFF_STRPAD_OVERHEAD - e
        return b'const char off_pad[] = "' + b"p" * m + b'";' + eol if m >= 1 else None
    if kind == "blank":
        if e == 1:
            return eol * n if n >= 1 else None
        if n < 4:
            return None
        return eol * (n // 2) if n % 2 == 0 else eol * ((n - 3) // 2) + b" " + eol
    if kind == "lines":
        if n < 2 + e:
            return None
        out, left = [], n
        while left:
            L = 64 if left == 64 or left - 64 >= 2 + e else left
            out.append(b"//" + b"-" * (L - 2 - e) + eol)
            left -= L
        return b"".join(out)
    raise ValueError(kind)


def off_hdr(kind, eol):
    """what follows the padding: the program always starts on (presumed) line 2."""
    return b"#line 2" + eol if kind in ("lines", "blank") else b""


def off_body(variant, i):
    if variant == "lf":
        return off_prog(True)
    if variant == "crlf":
        if "crlf" not in _OFF_CACHE:
            _OFF_CACHE["crlf"] = off_prog(True).replace(b"\n", b"\r\n")
        return _OFF_CACHE["crlf"]
    base = off_prog(False)
    sp = base[:i] + b"\\\n" + base[i:]
    return sp if variant == "splice" else sp.replace(b"\n", b"\r\n")


def off_splice_points():
    base = off_prog(False)
    return [i for i in range(len(base)) if not (i > 0 and base[i - 1] == 0x5c and base[i] == 0x0a)]


def off_inserted_at(variant, i):
    """offset in off_body(variant, i) of the inserted backslash."""
    if variant == "splice":
        return i
    return i + off_prog(False)[:i].count(b"\n")


def off_files(case):
    """case = (variant, padkind, where, bom, b, j, i) -> (variant file bytes, reference file bytes) or None when the
    padding does not fit.  b is the file offset of byte j of the body."""
    variant, kind, where, bom, b, j, i = case
    eol = b"\r\n" if variant.endswith("crlf") else b"\n"
    body = off_body(variant, i)
    pre = OFF_BOM if bom else b""
    hdr = off_hdr(kind, eol)
    n = b - len(pre) - len(hdr) - j
    pad = off_pad(kind, n, eol)
    if pad is None:
        return None
    F = pre + pad + hdr + body
    assert len(pre + pad + hdr) + j == b
    prog = off_prog(variant in ("lf", "crlf"))
    if kind == "string":
        m = n - OFF_STRPAD_OVERHEAD - len(eol)
        R = off_pad(kind, m + OFF_STRPAD_OVERHEAD + 1, b"\n") + b"/*" + b"x" * 2044 + b"*/" + prog     # program between b+595 and b+3502
    else:
        R = off_pad(kind, 64, b"\n") + off_hdr(kind, b"\n") + prog
    return F, R


OFF_UCN = re.compile(rb"\\(u[0-9a-fA-F]{4}|U[0-9a-fA-F]{8})")


def off_straddle(F, b):
    """class of what the offset b separates (for the signature)."""
    if b >= len(F):
        return "end-of-file"
    L, R = F[b - 1], F[b]
    if L == 0x0d and R == 0x0a:
        return "backslash-cr|lf" if F[b - 2] == 0x5c else "cr|lf"
    if L == 0x5c and R in (0x0d, 0x0a):
        return "backslash|newline"
    if R == 0x5c and F[b + 1:b + 2] in (b"\r", b"\n"):
        return "|backslash-newline"
    if F[b - 2:b] == b"\\\n" or F[b - 3:b] == b"\\\r\n":
        return "backslash-newline|"
    if F[b - 2:b] == b"\\\r":
        return "backslash-cr|"
    if (R & 0xC0) == 0x80:
        return "inside-utf8-sequence"
    if R >= 0xC0:
        return "before-utf8-sequence"
    if L >= 0x80:
        return "after-utf8-sequence"
    for m in OFF_UCN.finditer(F, max(0, b - 10), b + 10):
        if m.start() < b < m.end():
            return "inside-ucn"
    if L in (0x0a, 0x0d) or R in (0x0a, 0x0d):
        return "at-line-end"
    if L in (0x22, 0x27) or R in (0x22, 0x27):
        return "at-quote"
    if L == 0x5c:
        return "inside-escape"
    return "other"


def _off_S(chibicc, wd, where, data):
    if where == "include":
        with open(os.path.join(wd, "c11_off.h"), "wb") as f:
            f.write(data)
        data = b'#include "c11_off.h"\n'
    return _cc1_S(chibicc, wd, "t.c", data)


def _off_task(args):
    chibicc, wd, cases = args
    os.makedirs(wd, exist_ok=True)
    refs = {}
    bad, n, nofit, noref = [], 0, 0, 0
    for case in cases:
        fr = off_files(case)
        if fr is None:
            nofit += 1
            continue
        F, R = fr
        where = case[2]
        key = (where, hashlib.sha1(R).digest())
        if key not in refs:
            refs[key] = _off_S(chibicc, wd, where, R)
        st0, ref = refs[key]
        if st0 == "timeout":
            continue
        if st0 != 0:
            if case[1] == "string":       # this reference is itself a large file: not judged against
                noref += 1
                continue
            return "base-fail", "%s: %s %s" % (case, st0, ref), [], 0, 0, 0
        st, got = _off_S(chibicc, wd, where, F)
        if st == "timeout":
            continue
        n += 1
        if st != 0:
            bad.append((case, "rejected" if isinstance(st, int) and st > 0 else "signal"))
        elif got != ref:
            bad.append((case, "different-code"))
    return "ok", "", bad, n, nofit, noref


def _gcc_S(wd, data):
    p = os.path.join(wd, "g.c")
    with open(p, "wb") as f:
        f.write(data)
    st, out, err = core.run_limited(["gcc", "-S", "-O0", "-w", "-std=gnu11", "-g0", "-o", "-", "g.c"], cwd=wd, timeout=TMO, binary=True)
    return out if st == 0 else None


def _off_gcc_task(args):
    """second oracle: is gcc -S invariant under the transformation of this case? -> (case, True / False)"""
    wd, cases = args
    os.makedirs(wd, exist_ok=True)
    refs, res = {}, []
    for case in cases:
        F, R = off_files(case)
        k = hashlib.sha1(R).digest()
        if k not in refs:
            refs[k] = _gcc_S(wd, R)
        g = _gcc_S(wd, F)
        res.append((case, refs[k] is not None and g == refs[k]))
    return res


OFF_REPLAY = ("(cd a && $CHIBICC -cc1 -cc1-input t.c -cc1-output t.s t.c) || exit 0\n"
              "(cd b && $CHIBICC -cc1 -cc1-input t.c -cc1-output t.s t.c) || exit 1\n"
              "grep -v -E '^[[:space:]]*\\.(loc|file)' a/t.s > a.s; grep -v -E '^[[:space:]]*\\.(loc|file)' b/t.s > b.s\n"
              "cmp -s a.s b.s && exit 0; exit 1\n")


def off_marks(variant):
    """body offsets j such that the boundary is within +-2 of a marked byte (used where the boundary is not slid over
    every byte): crlf: every CR and LF (incl. those of the existing backslash-newlines, and their backslashes);
    lf: every byte of every multi-byte UTF-8 character, every backslash (UCN, escape, splice), every quote, every LF."""
    body = off_body(variant, 0)
    marked = set()
    for k, c in enumerate(body):
        if variant == "crlf":
            hit = c in (0x0d, 0x0a) or (c == 0x5c and body[k + 1:k + 2] == b"\r")
        else:
            hit = c >= 0x80 or c in (0x5c, 0x22, 0x27, 0x0a)
        if hit:
            marked.add(k)
    js = set()
    for k in marked:
        for d in (-2, -1, 0, 1, 2):
            if 0 <= k - d <= len(body):
                js.add(k - d)
    return sorted(js)


def off_marked_splice_points():
    """insertion points next to a marked byte of the unspliced program (multi-byte character bytes, backslashes, quotes, line ends)."""
    base = off_prog(False)
    return [i for i in off_splice_points() if any(c >= 0x80 or c in (0x5c, 0x22, 0x27, 0x0a) for c in base[max(0, i - 1):i + 1])]


def off_plan(tier):
    """-> list of cases (variant, padkind, where, bom, b, j, i)"""
    cases = []
    nl = len(off_body("lf", 0))
    nc = len(off_body("crlf", 0))
    pts = off_splice_points()
    mpts = off_marked_splice_points()
    mk = {"lf": off_marks("lf"), "crlf": off_marks("crlf")}

    def slide(variant, kind, where, bom, b, marks_only=False):
        for j in (mk[variant] if marks_only else range((nl if variant == "lf" else nc) + 1)):
            cases.append((variant, kind, where, bom, b, j, 0))

    def splices(kind, where, b, points, allk):
        """allk: the boundary at every place around the inserted pair; else only inside it (backslash | LF, backslash CR | LF)."""
        for i in points:
            for k in ((0, 1, 2) if allk else (1,)):
                cases.append(("splice", kind, where, 0, b, i + k, i))
            at = off_inserted_at("splice-crlf", i)
            for k in ((0, 1, 2, 3) if allk else (2,)):
                cases.append(("splice-crlf", kind, where, 0, b, at + k, i))
    if tier == "quick":
        slide("lf", "comment", "main", 0, 4096)
        slide("crlf", "comment", "main", 0, 4096)
        splices("comment", "main", 4096, pts, False)
        for b in (8192, 65536):
            slide("lf", "comment", "main", 0, b, True)
            slide("crlf", "comment", "main", 0, b, True)
            splices("comment", "main", b, mpts, False)
        for kind in ("lines", "blank", "string"):
            slide("lf", kind, "main", 0, 4096, True)
            slide("crlf", kind, "main", 0, 4096, True)
        slide("lf", "comment", "include", 0, 4096, True)
        slide("crlf", "comment", "include", 0, 4096, True)
        slide("crlf", "comment", "main", 1, 4096, True)
    else:
        full = (4096, 8192, 65536, 131072)
        for b in range(4096, 131072 + 1, 4096):
            slide("lf", "comment", "main", 0, b, b not in full)
            slide("crlf", "comment", "main", 0, b, b not in full)
        for b in (4096, 65536):
            splices("comment", "main", b, pts, True)
            for kind in ("lines", "blank", "string"):
                slide("lf", kind, "main", 0, b)
                slide("crlf", kind, "main", 0, b)
            slide("lf", "comment", "include", 0, b)
            slide("crlf", "comment", "include", 0, b)
            slide("crlf", "comment", "main", 1, b)
            slide("lf", "comment", "main", 1, b, True)
        for b in (8192, 12288, 16384, 32768, 131072):
            splices("comment", "main", b, pts, False)
        splices("comment", "include", 4096, mpts, True)
        splices("lines", "main", 4096, mpts, True)
        for b in range(2048, 131072 + 1, 512):        # smaller multiples leave no room for the padding in front of the last bytes
            if b % 4096:
                slide("crlf", "comment", "main", 0, b, True)
    return cases


def run_off(ctx):
    wd = ctx.mkdir("off")
    # ---- second oracle 1: the unpadded program has the values gcc gives it
    prog = off_prog(True)
    base = off_pad("comment", 64, b"\n") + prog
    C = type("C", (), {"chibicc": ctx.chibicc})
    with open(os.path.join(wd, "p.c"), "wb") as f:
        f.write(base)
    drv = os.path.join(HARNESS, "c11_off_drv.c")
    ok, stage, st, err = twin.cc_compile(C, os.path.join(wd, "p.c"), os.path.join(wd, "p_cc.o"), [], cwd=wd, timeout=TMO)
    if not ok:
        if st == "timeout":
            ctx.incomplete("off: seed program compile timed out")
            return 0
        ctx.violation("C11|off|seed-program|rejected", "the seed program of the off family is rejected: %s" % err[-200:],
                      files={"unit.c": base}, replay="$CHIBICC -cc1 -cc1-input unit.c -cc1-output unit.s unit.c && exit 0; exit 1")
        return 1
    outs = []
    for tag, obj in (("cc", ["p_cc.o"]), ("ref", ["-std=gnu11", "-O0", "p.c"])):
        st, o, e = core.run_limited(["gcc", "-w", "-fno-pie", "-no-pie", "-o", "p_" + tag, drv] + obj + ["-Wl,-z,noexecstack"], cwd=wd, timeout=TMO)
        if st != 0:
            raise core.HarnessError("off: cannot build the value driver (%s): %s" % (tag, e[-800:]))
        st, o, e = core.run_limited([os.path.join(wd, "p_" + tag)], cwd=wd, timeout=TMO)
        if st != 0:
            raise core.HarnessError("off: value driver (%s) failed: %s" % (tag, st))
        outs.append(o)
    if outs[0] != outs[1]:
        bad = [a.split()[0] for a, b in zip(outs[0].splitlines(), outs[1].splitlines()) if a != b]
        ctx.violation("C11|off|seed-program|object-bytes-differ-from-gcc", "objects %s of the unpadded seed program differ from gcc's" % ",".join(bad),
                      files={"p.c": base, "c11_off_drv.c": open(drv).read()},
                      replay="$CHIBICC -cc1 -cc1-input p.c -cc1-output cc.s p.c || exit 1\nas -o cc.o cc.s || exit 1\n"
                             "gcc -w -fno-pie -no-pie -o d1 c11_off_drv.c cc.o -Wl,-z,noexecstack || exit 0\n"
                             "gcc -w -fno-pie -no-pie -std=gnu11 -O0 -o d2 c11_off_drv.c p.c || exit 0\n"
                             "./d1 > o1; ./d2 > o2; cmp -s o1 o2 && exit 0; exit 1\n")
    if len(outs[1].splitlines()) < 20:
        raise core.HarnessError("off: vacuous value driver output")
    # ---- second oracle 2: gcc -S is invariant under the transformations (independent of the offset)
    pts = off_splice_points()
    chk = pts if ctx.tier == "thorough" else pts[::7]
    gcases = [("crlf", kind, "main", bom, 4096, 100, 0) for kind in OFF_PADS for bom in (0, 1)]
    gcases += [("lf", kind, "main", 1, 8192, 100, 0) for kind in OFF_PADS]
    gcases += [(v, "comment", "main", 0, 4096, i + 1, i) for i in chk for v in ("splice", "splice-crlf")]
    gres = [r for part in core.pmap(_off_gcc_task, [(os.path.join(wd, "g%d" % k), c) for k, c in enumerate(core.chunks(gcases, 24))]) for r in part]
    gbad_tr = [c for c, okk in gres if not okk and c[0] in ("lf", "crlf")]
    if gbad_tr:
        raise core.HarnessError("off: gcc -S is not invariant under %s - the generator is wrong" % (gbad_tr[:3],))
    gskip = set(c[6] for c, okk in gres if not okk)
    ctx.cover(off_gcc_invariance_checked=len(gres), off_gcc_splice_points_disagree=len(gskip))
    if len(gskip) > len(chk) // 10:
        raise core.HarnessError("off: gcc disagrees with splice transparency at %d of %d insertion points" % (len(gskip), len(chk)))
    # ---- the enumeration
    cases = [c for c in off_plan(ctx.tier) if not (c[0].startswith("splice") and c[6] in gskip)]
    ctx.cover(off_skipped_ref_disagrees=sum(1 for c in off_plan(ctx.tier) if c[0].startswith("splice") and c[6] in gskip) if gskip else 0)
    # big files cost more: order by boundary so that shards are homogeneous, then deal shards round-robin
    cases.sort(key=lambda c: (c[4], c[0], c[1], c[2], c[3], c[5], c[6]))
    shards = core.chunks(cases, 250)
    tasks = [(ctx.chibicc, os.path.join(wd, "t%d" % k), sh) for k, sh in enumerate(shards)]
    total = nofit = done = noref = 0
    reported = {}
    classes = set()
    for gi, grp in enumerate(core.chunks(tasks, core.NPROC * 4)):
        if ctx.out_of_time(reserve=90):
            ctx.incomplete("off: deadline after %d of %d shards (boundaries up to %d complete)" % (done, len(tasks), grp[0][2][0][4] - 512))
            break
        for st, detail, bad, n, nf, nr in core.pmap(_off_task, grp):
            done += 1
            noref += nr
            if st != "ok":
                raise core.HarnessError("off: a reference file does not compile with chibicc: %s" % detail)
            total += n
            nofit += nf
            for case, dev in bad:
                variant, kind, where, bom, b, j, i = case
                F, R = off_files(case)
                sig = "C11|off|%s/%s%s|%s" % (variant, off_straddle(F, b), "/included-file" if where == "include" else "", dev)
                if reported.get(sig, 0) >= 1:
                    ctx.violation(sig, "", None, None)
                    continue
                reported[sig] = 1
                files = {"a/t.c": R, "b/t.c": F}
                if where == "include":
                    files = {"a/t.c": b'#include "c11_off.h"\n', "b/t.c": b'#include "c11_off.h"\n', "a/c11_off.h": R, "b/c11_off.h": F}
                ctx.violation(sig, "seed program behind %s padding (%s%s%s) so that file offset %d is byte %d of the program%s: %s vs the "
                              "unpadded LF-only file [bytes %r | %r]" %
                              (kind, variant, ", BOM" if bom else "", ", in an #included file" if where == "include" else "", b, j,
                               " (backslash-newline inserted at program byte %d)" % i if variant.startswith("splice") else "",
                               dev, F[max(0, b - 12):b], F[b:b + 6]), files=files, replay=OFF_REPLAY)
    for c in cases:
        classes.add((c[0], c[1], c[2], c[3], c[4]))
    ctx.cover(off_cases_judged=total, off_padding_does_not_fit=nofit, off_large_reference_rejected=noref, off_boundaries=sorted(set(c[4] for c in cases)),
              off_program_bytes=len(prog), off_form_x_padding_x_where_x_bom_x_boundary=len(classes))
    if total < 1000 and ctx.exhaustive:
        raise core.HarnessError("vacuous: only %d large-file cases judged" % total)
    ctx.sample({"off_case": "form crlf, comment padding, boundary 4096 at program byte 100",
                "bytes_around_boundary": repr(off_files(("crlf", "comment", "main", 0, 4096, 100, 0))[0][4080:4110])}, limit=16)
    return total


# =====================================================================================================================
def run(ctx):
    parts = os.environ.get("C11_ONLY", "twin,uwb,ucc,ident,src,off").split(",")
    ev = 0
    nontriv = 0
    if "uwb" in parts:
        n = run_uwb(ctx); ev += n; nontriv += n
    if "twin" in parts:
        n, j = run_twin_families(ctx); ev += n; nontriv += j
        n = run_cat_constraint(ctx); ev += n; nontriv += n
        n = run_hdr(ctx); ev += n; nontriv += n
    if "src" in parts and not ctx.out_of_time(reserve=60):
        n = run_src(ctx); ev += n; nontriv += n
    if "off" in parts and not ctx.out_of_time(reserve=120):
        n = run_off(ctx); ev += n; nontriv += n
    if "ident" in parts and not ctx.out_of_time(reserve=60):
        n = run_ident(ctx); ev += n; nontriv += n
    if "ucc" in parts:
        if ctx.out_of_time(reserve=120):
            ctx.incomplete("ucc not started: deadline")
        else:
            n = run_ucc(ctx); ev += n; nontriv += n
    ctx.cover(evaluations=ev, distinct_nontrivial=nontriv,
              rule="one case = one literal spelling (judged on value, run-time value, sizeof, _Generic class, object bytes as applicable), "
                   "one (code point, function) pair of unicode.c, one (code point, literal kind, prefix) instance through the compiler, "
                   "one Annex D character in one identifier position, one single-deviation variant of a seed source file, or one "
                   "(form, padding, boundary offset, program byte at the boundary) placement of the large-file seed program; "
                   "non-trivial = the model (6.4.4.1p5 table, 6.4.4.4/6.4.5 encoder, UTF-8/16/32 definitions, Annex D) defines the "
                   "result and, where gcc is linked as a twin, gcc agrees with the model",
              bounds={"int": "bases 2/8/10/16 x 23 suffix spellings x %d magnitudes (+ leading-zero / upper-case variants)" % len(magnitudes(ctx.tier)),
                      "chr/str": "every simple escape; octal \\0..\\777 in 1-3 digit spellings; hex 1-8 digits at element-type thresholds; "
                                 "UCN and raw samples at every UTF-8/UTF-16 length boundary; prefixes '',u8,u,U,L",
                      "cat": "all same-prefix and prefix+none pairs and triples over %d / %d piece bodies" % (len(CAT_BODIES), len(CAT_BODIES3)),
                      "uwb": "all 1112064 scalar values",
                      "ucc": "quick: planes 0-1; thorough: planes 0-16; string prefixes '',u8,u,U,L, character-constant prefixes u,U,L, UCN spelling",
                      "ident": "quick: whole BMP + boundaries of every Annex D range; thorough: every Annex D character; first and later position",
                      "src": "%d seed files; BOM, CRLF, splice at every byte offset%s" % (len(SEEDS), " (+CRLF splices, double splices, BOM+splice)" if ctx.tier == "thorough" else ""),
                      "off": "1 seed program of %d bytes behind padding {comment, lines, blank, string} in {main, included} file, {no BOM, BOM}; forms lf, crlf, "
                             "splice / splice-crlf inserted at every byte; block boundary b between every two adjacent bytes of the program: %s"
                             % (len(off_prog(True)), "b = 4096 (every byte), 8192 and 65536 (+-2 around every CR, LF, splice byte, multi-byte character byte, "
                                "UCN / escape backslash, quote)" if ctx.tier == "quick" else
                                "b = every multiple of 4096 up to 131072 (4096, 8192, 65536, 131072 over every byte, the others +-2 around marked bytes), "
                                "every multiple of 512 from 2048 up to 131072 +-2 around every CR / LF of the crlf form")})
    ctx.assume("execution character set is UTF-8 / UTF-16 / UTF-32 (char16_t = unsigned short, char32_t = unsigned int, plain char signed) as fixed by the x86-64 psABI and gcc")
    ctx.assume("line numbers in .loc/.file are not judged here (C18), but the VALUE of __LINE__ after a CR LF / BOM / padding is (off family: "
               "a CR LF pair is one line end); lone CR line ends are exercised but not judged")
    ctx.assume("off family: the reads of the compiler happen at multiples of 512 bytes up to 128 KB (stdio / page / pipe buffer sizes); "
               "a deviation that needs another alignment or a larger file is out of the bound")
    ctx.assume("wchar_t signedness, multi-character constants, out-of-range escapes, mixed-prefix concatenation, '$' in identifiers are implementation-defined: skipped")
    ctx.assume("splices inside a UTF-8 multibyte sequence are judged (phase 2 operates on bytes in chibicc and gcc alike)")
