struct __attribute__((foo)) S { int a; };
