int f(int x) { break; return x; }
