struct B { int a[] : 3; } b;
