int f(void) { return 0;
