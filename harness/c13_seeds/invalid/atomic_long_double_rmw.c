_Atomic long double x;
void f(void) { x += 1; }
