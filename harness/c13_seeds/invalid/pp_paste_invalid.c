#define C(a, b) a##b
int x = C(+, /);
