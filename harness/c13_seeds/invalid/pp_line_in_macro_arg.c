#define LOG(fmt, ...) g(fmt, __VA_ARGS__)
int g(int, ...);
int f(void) { return LOG(1
#line 2, 3); }
