#!/bin/sh
# usage: applyfix.sh <patch.diff> <commit message (without the "fix: " prefix)>  -- applies to /repo and commits
p=$(readlink -f "$1"); shift
cd /repo || exit 2
git apply --check "$p" 2>/dev/null || { echo "APPLYFIX: $(basename $p) does not apply"; exit 2; }
git apply "$p" && git add -A . && git commit -q -m "fix: $*" && echo "APPLYFIX: $(basename $p) -> $(git log --oneline | head -1)"
