#if
#endif
