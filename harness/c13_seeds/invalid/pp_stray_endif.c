#endif
