#define N 0
#if N != 0 && 1000 / N > 10
#error not reached
#endif
#if !defined(M) || 64 % M == 0
int selected = 1;
#endif
enum { E = N && 1000 / N, F = 1 || 1 / N };
static int g = N == 0 || 1000 % N;
int a[(N ? 1 / N : 2) + 1];
int f(int x) { switch (x) { case 0 && 1 / N: return 1; case 1 || 1 % N: return 2; } return g + E + F; }
