#!/bin/sh
# usage: runall.sh quick|thorough [ids...]  - runs the checks one after another in /verif, prints one line each
tier=${1:-quick}; shift
ids=${*:-C01 C02 C03 C04 C05 C06 C07 C08 C09 C10 C11 C12 C13 C14 C15 C16 C17 C18 C19 C20}
mkdir -p /tmp/runs
for id in $ids; do
  ./check $id $tier > /tmp/runs/$id.$tier.log 2>&1; rc=$?
  echo "$id $tier rc=$rc viol=$(grep -c '^VIOLATION' /tmp/runs/$id.$tier.log) known=$(grep -c '^KNOWN' /tmp/runs/$id.$tier.log) $(tail -1 /tmp/runs/$id.$tier.log | grep -o 'wall=[0-9.]*s')"
done
