int x = ;
