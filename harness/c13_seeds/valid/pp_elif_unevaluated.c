#define N 0
#if N == 0
int a;
#elif 100 / N
#elif F(1)
#elif
#else
#endif
#ifdef N
#elif (
#endif
#if 0
#if 1 / 0
#elif G(
#endif
#else
int b;
#endif
