// C14 step shim.  One binary, installed (symlinked) as <shimdir>/chibicc, <shimdir>/as, <shimdir>/ld.
//
//   <shimdir>/chibicc ... -cc1 ...   step kind "cc1"  -> forwards to $C14_REAL_CHIBICC (argv[0] kept, so the
//                                                      default include dir stays <shimdir>/include)
//   <shimdir>/chibicc ...            (no -cc1) plain exec of the real driver
//   <shimdir>/as, <shimdir>/ld       step kinds "as", "ld" -> $C14_REAL_AS / $C14_REAL_LD
//   c14_shim --launch <binary> <argv0> args...        exec <binary> with a chosen argv[0]
//
// Environment:
//   C14_RUN     directory with steps.log (pre-created).  Records:  B <kind> <k> <out> | argv...   and
//               E <kind> <k> <wait status or fault name>
//   C14_FAULT   "<kind>:<k>:<how>"  how = exit1 exit3 segv kill partial noexec   (k-th step of that kind, 1-based)
//               noexec is produced by the driver's own execvp failing: the step that runs last before the
//               target removes <C14_SHIMDIR>/<name> (for k = 1 the orchestrator never installs it).
//   C14_SCHED   unix socket of the schedule orchestrator; C14_ID the driver's id.  The shim announces
//               "<id> <pid> <kind> <k>\n" and waits for one reply line: "go" (run the step) or "fault:<how>" (fail
//               in that way instead; how as in C14_FAULT except noexec).  It then sends "done\n" and keeps the
//               connection open until it dies, so end-of-file on the connection tells the orchestrator that the
//               step's process is gone.  Several steps of one driver may be blocked here at the same time.
// The ordinal k is allocated and the B record written under an exclusive lock on steps.log, so steps that a driver
// starts concurrently get distinct ordinals and B/E records appear in the order of the events.
#define _GNU_SOURCE
#include <errno.h>
#include <fcntl.h>
#include <libgen.h>
#include <signal.h>
#include <stdio.h>
#include <stdlib.h>
#include <string.h>
#include <sys/file.h>
#include <sys/resource.h>
#include <sys/socket.h>
#include <sys/un.h>
#include <sys/wait.h>
#include <unistd.h>

static void die(const char *msg) {
  // Exit status 97 is reserved for "the shim itself is broken"; the checker turns it into a harness error.
  dprintf(2, "c14_shim: %s: %s\n", msg, strerror(errno));
  _exit(97);
}

static const char *arg_after(int argc, char **argv, const char *opt) {
  for (int i = 1; i + 1 < argc; i++)
    if (!strcmp(argv[i], opt))
      return argv[i + 1];
  return "";
}

static char steps_path[4096];

static int count_kind(const char *kind) {
  FILE *f = fopen(steps_path, "r");
  if (!f)
    die("cannot read steps.log");
  char line[16384], k[32];
  int n = 0;
  while (fgets(line, sizeof line, f))
    if (line[0] == 'B' && sscanf(line, "B %31s", k) == 1 && !strcmp(k, kind))
      n++;
  fclose(f);
  return n;
}

static void append(const char *text) {
  int fd = open(steps_path, O_WRONLY | O_APPEND);
  if (fd < 0)
    die("cannot append to steps.log");
  if (write(fd, text, strlen(text)) < 0)
    die("write steps.log");
  close(fd);
}

static void self_signal(int sig) {
  struct rlimit rl = {0, 0};
  setrlimit(RLIMIT_CORE, &rl);
  signal(sig, SIG_DFL);
  kill(getpid(), sig);
  pause();
  _exit(98);
}

int main(int argc, char **argv) {
  if (argc >= 4 && !strcmp(argv[1], "--launch")) {
    execv(argv[2], argv + 3);
    die("launch exec failed");
  }

  char *self = strdup(argv[0]);
  const char *name = basename(self);
  const char *kind, *real, *out;

  if (!strcmp(name, "chibicc")) {
    real = getenv("C14_REAL_CHIBICC");
    int cc1 = 0;
    for (int i = 1; i < argc; i++)
      if (!strcmp(argv[i], "-cc1"))
        cc1 = 1;
    if (!real)
      die("C14_REAL_CHIBICC unset");
    if (!cc1) {
      execv(real, argv);
      die("exec of real driver failed");
    }
    kind = "cc1";
    out = arg_after(argc, argv, "-cc1-output");
    if (!*out)
      out = arg_after(argc, argv, "-o");
  } else if (!strcmp(name, "as")) {
    kind = "as";
    real = getenv("C14_REAL_AS");
    out = arg_after(argc, argv, "-o");
  } else if (!strcmp(name, "ld")) {
    kind = "ld";
    real = getenv("C14_REAL_LD");
    out = arg_after(argc, argv, "-o");
  } else {
    errno = EINVAL;
    die("unknown role");
  }
  if (!real)
    die("real tool unset");

  const char *run = getenv("C14_RUN");
  if (!run)
    die("C14_RUN unset");
  snprintf(steps_path, sizeof steps_path, "%s/steps.log", run);

  // Allocate the ordinal and log the step with its argv, atomically with respect to sibling steps.
  int k;
  {
    int lfd = open(steps_path, O_RDWR | O_CLOEXEC);
    if (lfd < 0 || flock(lfd, LOCK_EX) < 0)
      die("cannot lock steps.log");
    k = count_kind(kind) + 1;
    char *buf = malloc(65536);
    int n = snprintf(buf, 65536, "B %s %d %s |", kind, k, *out ? out : "-");
    for (int i = 0; i < argc && n < 60000; i++)
      n += snprintf(buf + n, 65536 - n, " %s", argv[i]);
    snprintf(buf + n, 65536 - n, "\n");
    append(buf);
    free(buf);
    flock(lfd, LOCK_UN);
    close(lfd);
  }

  // Fault from the environment?
  const char *fault = getenv("C14_FAULT");
  char fkind[32] = "", fhow[32] = "";
  int fk = 0;
  if (fault && *fault && sscanf(fault, "%31[^:]:%d:%31s", fkind, &fk, fhow) != 3)
    die("bad C14_FAULT");
  char how[40] = "";
  if (fk == k && !strcmp(fkind, kind) && strcmp(fhow, "noexec"))
    snprintf(how, sizeof how, "%s", fhow);

  // Schedule point.
  int sock = -1;
  const char *sched = getenv("C14_SCHED");
  if (sched && *sched) {
    sock = socket(AF_UNIX, SOCK_STREAM | SOCK_CLOEXEC, 0);
    struct sockaddr_un sa = {.sun_family = AF_UNIX};
    snprintf(sa.sun_path, sizeof sa.sun_path, "%s", sched);
    if (sock < 0 || connect(sock, (struct sockaddr *)&sa, sizeof sa) < 0)
      die("cannot reach the scheduler");
    char msg[256];
    const char *id = getenv("C14_ID");
    int n = snprintf(msg, sizeof msg, "%s %d %s %d\n", id ? id : "?", (int)getpid(), kind, k);
    if (write(sock, msg, n) != n)
      die("scheduler write");
    char reply[32];
    size_t rn = 0;
    for (;;) {  // wait for the reply line
      char c;
      ssize_t r = read(sock, &c, 1);
      if (r < 0 && errno == EINTR)
        continue;
      if (r <= 0)
        die("scheduler went away");
      if (c == '\n')
        break;
      if (rn + 1 < sizeof reply)
        reply[rn++] = c;
    }
    reply[rn] = 0;
    if (!strncmp(reply, "fault:", 6))
      snprintf(how, sizeof how, "%s", reply + 6);
    else if (strcmp(reply, "go")) {
      errno = EPROTO;
      die("bad scheduler reply");
    }
  }

  char line[256];
  if (*how) {
    snprintf(line, sizeof line, "E %s %d fault:%s\n", kind, k, how);
    append(line);
    if (!strcmp(how, "partial") && *out && strcmp(out, "-")) {
      int fd = open(out, O_WRONLY | O_CREAT | O_TRUNC, 0644);
      if (fd >= 0) {
        if (write(fd, "PARTIAL", 7) < 0) {
        }
        close(fd);
      }
    }
    if (sock >= 0 && send(sock, "done\n", 5, MSG_NOSIGNAL) < 0) {
    }
    if (!strcmp(how, "exit1") || !strcmp(how, "partial"))
      _exit(1);
    if (!strcmp(how, "exit3"))
      _exit(3);
    if (!strcmp(how, "segv"))
      self_signal(SIGSEGV);
    if (!strcmp(how, "kill"))
      self_signal(SIGKILL);
    errno = EINVAL;
    die("unknown fault kind");
  }

  // Run the real tool.
  pid_t pid = fork();
  if (pid < 0)
    die("fork");
  if (pid == 0) {
    execv(real, argv);
    dprintf(2, "c14_shim: exec %s: %s\n", real, strerror(errno));
    _exit(97);
  }
  int status = 0;
  while (waitpid(pid, &status, 0) < 0)
    if (errno != EINTR)
      die("waitpid");
  snprintf(line, sizeof line, "E %s %d %d\n", kind, k, status);
  append(line);

  // Arrange a later "exec not found": remove the target's entry once the step before it has run.
  if (fk > 1 && !strcmp(fhow, "noexec") && count_kind(fkind) == fk - 1) {
    const char *dir = getenv("C14_SHIMDIR");
    if (!dir)
      die("C14_SHIMDIR unset");
    char p[4096];
    snprintf(p, sizeof p, "%s/%s", dir, !strcmp(fkind, "cc1") ? "chibicc" : fkind);
    // Only the last step before the target may do this; later steps of other kinds find it gone already.
    unlink(p);
  }

  if (sock >= 0 && send(sock, "done\n", 5, MSG_NOSIGNAL) < 0) {
  }
  if (WIFSIGNALED(status))
    self_signal(WTERMSIG(status));
  _exit(WEXITSTATUS(status));
}
