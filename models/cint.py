"""C11 integer expression semantics on LP64 - Python twin of harness/c01_model.h (kept deliberately parallel).

Types are indices: 0 _Bool, 1 char, 2 short, 3 int, 4 long, 5 uchar, 6 ushort, 7 uint, 8 ulong.
eval(tree) -> (value, type, defined).  Trees:
  ("const", v, t[, spelling]) ("bin", opname, l, r) ("un", opname, x) ("cast", t, x) ("cond", c, l, r) ("comma", l, r)
opname is the C spelling ("+", "<<", "&&", "neg" is "-", ...).
Implementation-defined points follow the platform (wrap on out-of-range signed conversion, arithmetic >>).
"""
TYPES = ["_Bool", "char", "short", "int", "long", "unsigned char", "unsigned short", "unsigned int", "unsigned long"]
TN = ["bool", "char", "short", "int", "long", "uchar", "ushort", "uint", "ulong"]
SIZE = [1, 1, 2, 4, 8, 1, 2, 4, 8]
UNS = [1, 0, 0, 0, 0, 1, 1, 1, 1]
BOOL, CHAR, SHORT, INT, LONG, UCHAR, USHORT, UINT, ULONG = range(9)


def tmin(t): return 0 if UNS[t] else -(1 << (SIZE[t] * 8 - 1))
def tmax(t): return 1 if t == BOOL else ((1 << (SIZE[t] * 8)) - 1 if UNS[t] else (1 << (SIZE[t] * 8 - 1)) - 1)
def fits(v, t): return tmin(t) <= v <= tmax(t)


def conv(v, t):
    if t == BOOL:
        return 1 if v != 0 else 0
    bits = SIZE[t] * 8
    v &= (1 << bits) - 1
    if not UNS[t] and v >> (bits - 1):
        v -= 1 << bits
    return v


def promote(t): return INT if SIZE[t] < 4 else t


def common(a, b):
    a, b = promote(a), promote(b)
    if a == b:
        return a
    if SIZE[a] != SIZE[b]:
        return a if SIZE[a] > SIZE[b] else b
    return a if UNS[a] else b


def cdiv(a, b):
    q = abs(a) // abs(b)
    return q if (a < 0) == (b < 0) else -q


def binop(op, x, y):
    """x, y: (v, t).  Returns (v, t, defined)."""
    (xv, xt), (yv, yt) = x, y
    if op in ("<<", ">>"):
        rt = promote(xt)
        a, c = conv(xv, rt), conv(yv, promote(yt))
        w = SIZE[rt] * 8
        if c < 0 or c >= w:
            return 0, rt, False
        if op == "<<":
            if UNS[rt]:
                return conv(a << c, rt), rt, True
            r = a << c
            ok = a >= 0 and fits(r, rt)
            return conv(r, rt), rt, ok
        return a >> c, rt, True
    ct = common(xt, yt)
    a, b = conv(xv, ct), conv(yv, ct)
    ok = True
    if op == "+": r = a + b
    elif op == "-": r = a - b
    elif op == "*": r = a * b
    elif op == "/":
        if b == 0: return 0, ct, False
        r = cdiv(a, b)
    elif op == "%":
        if b == 0: return 0, ct, False
        q = cdiv(a, b); r = a - q * b
        if not fits(q, ct): ok = False
    elif op == "&": r = a & b
    elif op == "|": r = a | b
    elif op == "^": r = a ^ b
    elif op == "<": return int(a < b), INT, True
    elif op == "<=": return int(a <= b), INT, True
    elif op == ">": return int(a > b), INT, True
    elif op == ">=": return int(a >= b), INT, True
    elif op == "==": return int(a == b), INT, True
    elif op == "!=": return int(a != b), INT, True
    else: raise ValueError(op)
    if UNS[ct]:
        return conv(r, ct), ct, ok
    if not fits(r, ct):
        return conv(r, ct), ct, False
    return r, ct, ok


def ev(n):
    k = n[0]
    if k == "const":
        return n[1], n[2], True
    if k == "cast":
        v, t, d = ev(n[2])
        return conv(v, n[1]), n[1], d
    if k == "comma":
        _, _, d1 = ev(n[1]); v, t, d2 = ev(n[2])
        return v, t, d1 and d2
    if k == "cond":
        cv, ct, cd = ev(n[1]); lv, lt, ld = ev(n[2]); rv, rt, rd = ev(n[3])
        t = common(lt, rt)
        return (conv(lv, t), t, cd and ld) if cv else (conv(rv, t), t, cd and rd)
    if k == "un":
        v, t, d = ev(n[2]); op = n[1]
        if op == "!": return int(not v), INT, d
        rt = promote(t)
        if op == "+": return v, rt, d
        if op == "~": return conv(~conv(v, rt), rt), rt, d
        if op == "-":
            r = -v
            if UNS[rt]: return conv(r, rt), rt, d
            return conv(r, rt), rt, d and fits(r, rt)
        raise ValueError(op)
    if k == "bin":
        op = n[1]
        lv, lt, ld = ev(n[2])
        if op == "&&":
            if not lv: return 0, INT, ld
            rv, rt, rd = ev(n[3]); return int(rv != 0), INT, ld and rd
        if op == "||":
            if lv: return 1, INT, ld
            rv, rt, rd = ev(n[3]); return int(rv != 0), INT, ld and rd
        rv, rt, rd = ev(n[3])
        v, t, d = binop(op, (lv, lt), (rv, rt))
        return v, t, d and ld and rd
    raise ValueError(k)


def lit(v, t):
    """C spelling of a constant of exactly type t and value v, built only from literals, unary minus and casts."""
    if t == INT:
        return str(v) if v >= 0 else ("(-%d)" % -v if v > -(1 << 31) else "(-2147483647-1)")
    if t == LONG:
        return "%dL" % v if v >= 0 else ("(-%dL)" % -v if v > -(1 << 63) else "(-9223372036854775807L-1)")
    if t == UINT:
        return "%dU" % v
    if t == ULONG:
        return "%dUL" % v
    if t == BOOL:
        return "((_Bool)%d)" % v
    return "((%s)%s)" % (TYPES[t], ("%d" % v if v >= 0 else "-%d" % -v))


def text(n):
    k = n[0]
    if k == "const": return n[3] if len(n) > 3 else lit(n[1], n[2])
    if k == "bin": return "(%s %s %s)" % (text(n[2]), n[1], text(n[3]))
    if k == "un": return "(%s%s)" % (n[1], text(n[2]))
    if k == "cast": return "((%s)%s)" % (TYPES[n[1]], text(n[2]))
    if k == "cond": return "(%s ? %s : %s)" % (text(n[1]), text(n[2]), text(n[3]))
    if k == "comma": return "(%s , %s)" % (text(n[1]), text(n[2]))
    raise ValueError(k)
