int f(void);
int *p = f();
