int f(int x) { switch (x) { case 1 ... 5: return 1; case 5: return 2; } return 0; }
