"""Reference model for C11 6.4.4 / 6.4.5 literals on the x86-64 SysV (LP64) execution environment, and C11 Annex D.

Written from the standard text (N1570), independent of chibicc's tokenize.c / unicode.c:

* parse_int(spelling)            6.4.4.1 grammar (+ GNU 0b/0B binary) -> (base, value, suffix class)
* int_type(base, value, suffix)  6.4.4.1p5 table: first type of the list in which the value fits, else None
* decode_body(body, prefix)      6.4.4.4 c-char / s-char sequences: source characters (UTF-8), simple / octal / hex
                                 escapes, universal character names (6.4.3)
* encode_string / char_value     6.4.5p6, 6.4.4.4p10-11 for the prefixes none, u8, u, U, L with the execution
                                 character set UTF-8 / UTF-16 / UTF-32; everything the standard leaves
                                 implementation-defined is reported as status "impl" (never judged)
* ANNEX_D1 / ANNEX_D2            D.1 / D.2 ranges, ident_start / ident_cont

Python stdlib only.
"""

# ------------------------------------------------------------------ integer constants (6.4.4.1)
# name -> (size in bytes, signed)
TYPES = {"int": (4, True), "uint": (4, False), "long": (8, True), "ulong": (8, False),
         "llong": (8, True), "ullong": (8, False)}
MAXV = {"int": 2**31 - 1, "uint": 2**32 - 1, "long": 2**63 - 1, "ulong": 2**64 - 1,
        "llong": 2**63 - 1, "ullong": 2**64 - 1}

# 6.4.4.1p5: (suffix class, is decimal) -> ordered candidate list
INT_TABLE = {
    ("", True): ["int", "long", "llong"],
    ("", False): ["int", "uint", "long", "ulong", "llong", "ullong"],
    ("u", True): ["uint", "ulong", "ullong"],
    ("u", False): ["uint", "ulong", "ullong"],
    ("l", True): ["long", "llong"],
    ("l", False): ["long", "ulong", "llong", "ullong"],
    ("ul", True): ["ulong", "ullong"],
    ("ul", False): ["ulong", "ullong"],
    ("ll", True): ["llong"],
    ("ll", False): ["llong", "ullong"],
    ("ull", True): ["ullong"],
    ("ull", False): ["ullong"],
}

# every spelling of every integer-suffix the grammar allows (6.4.4.1p1): u/U, l/L, ll/LL (same case), either order
SUFFIXES = {
    "": [""],
    "u": ["u", "U"],
    "l": ["l", "L"],
    "ul": ["ul", "uL", "Ul", "UL", "lu", "lU", "Lu", "LU"],
    "ll": ["ll", "LL"],
    "ull": ["ull", "uLL", "Ull", "ULL", "llu", "llU", "LLu", "LLU"],
}
_SUFFIX_CLASS = dict((sp, cls) for cls, sps in SUFFIXES.items() for sp in sps)


def parse_int(sp):
    """spelling -> (base, value, suffix class) or None when sp is not an integer constant."""
    i = 0
    if sp[:2] in ("0x", "0X"):
        base, digits, i = 16, "0123456789abcdefABCDEF", 2
    elif sp[:2] in ("0b", "0B"):
        base, digits, i = 2, "01", 2
    elif sp[:1] == "0":
        base, digits = 8, "01234567"
    elif sp[:1] in "123456789" and sp:
        base, digits = 10, "0123456789"
    else:
        return None
    j = i
    while j < len(sp) and sp[j] in digits:
        j += 1
    if j == i:
        return None
    if sp[j:] not in _SUFFIX_CLASS:
        return None
    return base, int(sp[i:j], base), _SUFFIX_CLASS[sp[j:]]


def int_type(base, value, suffix):
    """6.4.4.1p5: the first type of the list in which the value can be represented; None = no type in the list
    (the constant then has an extended type or no type: not defined by the property)."""
    for t in INT_TABLE[(suffix, base == 10)]:
        if value <= MAXV[t]:
            return t
    return None


# ------------------------------------------------------------------ character / string literals
PREFIXES = ["", "u8", "u", "U", "L"]
SIMPLE = {"'": 0x27, '"': 0x22, "?": 0x3f, "\\": 0x5c, "a": 7, "b": 8, "f": 12, "n": 10, "r": 13, "t": 9, "v": 11}
# element size per prefix
ELEM = {"": 1, "u8": 1, "u": 2, "U": 4, "L": 4}


def ucn_valid(cp):
    """6.4.3p2."""
    if cp > 0x10FFFF or 0xD800 <= cp <= 0xDFFF:
        return False
    return cp >= 0xA0 or cp in (0x24, 0x40, 0x60)


def decode_body(body):
    """body: bytes between the quotes (after phases 1-2).  Returns a list of ('cp', code point) for source
    characters, simple escapes and UCNs, ('esc', value) for octal / hex escapes; or None if malformed /
    outside the grammar (including invalid UCNs)."""
    out = []
    i, n = 0, len(body)
    while i < n:
        b = body[i]
        if b != 0x5c:
            if b < 0x80:
                out.append(("cp", b)); i += 1
                continue
            ln = 2 if b >> 5 == 6 else 3 if b >> 4 == 14 else 4 if b >> 3 == 30 else 0
            if not ln or i + ln > n:
                return None
            try:
                ch = body[i:i + ln].decode("utf-8")
            except UnicodeDecodeError:
                return None
            out.append(("cp", ord(ch))); i += ln
            continue
        i += 1
        if i >= n:
            return None
        c = chr(body[i])
        if c in SIMPLE:
            out.append(("cp", SIMPLE[c])); i += 1
        elif c in "01234567":
            j = i
            while j < n and j < i + 3 and chr(body[j]) in "01234567":
                j += 1
            out.append(("esc", int(body[i:j], 8))); i = j
        elif c == "x":
            j = i + 1
            while j < n and chr(body[j]) in "0123456789abcdefABCDEF":
                j += 1
            if j == i + 1:
                return None
            out.append(("esc", int(body[i + 1:j], 16))); i = j
        elif c in "uU":
            k = 4 if c == "u" else 8
            h = body[i + 1:i + 1 + k]
            if len(h) != k or any(chr(x) not in "0123456789abcdefABCDEF" for x in h):
                return None
            cp = int(h, 16)
            if not ucn_valid(cp):
                return None
            out.append(("cp", cp)); i += 1 + k
        else:
            return None
    return out


def _units(cp, prefix):
    if prefix in ("", "u8"):
        return list(chr(cp).encode("utf-8"))
    if prefix == "u":
        if cp < 0x10000:
            return [cp]
        cp -= 0x10000
        return [0xD800 + (cp >> 10), 0xDC00 + (cp & 0x3FF)]
    return [cp]


def encode_items(items, prefix, terminate=True):
    """-> (status, list of element values).  status 'ok' or 'impl' (an escape out of range of the element type:
    6.4.4.4p9 constraint - not judged)."""
    lim = (1 << (8 * ELEM[prefix])) - 1
    units = []
    status = "ok"
    for kind, v in items:
        if kind == "esc":
            if v > lim:
                status = "impl"
            units.append(v & lim)
        else:
            units += _units(v, prefix)
    if terminate:
        units.append(0)
    return status, units


def units_to_bytes(units, prefix):
    sz = ELEM[prefix]
    return b"".join(int(u).to_bytes(sz, "little") for u in units)


def string_bytes(pieces):
    """pieces: [(prefix, body bytes), ...] adjacent string literal tokens (6.4.5p5).
    -> (status, result prefix, object bytes).  status: 'ok', 'impl' (mixed different prefixes, out-of-range escape),
    'bad' (malformed)."""
    prefs = set(p for p, _ in pieces if p != "")
    if len(prefs) > 1:
        return "impl", None, None
    rp = prefs.pop() if prefs else ""
    items = []
    for _, body in pieces:
        d = decode_body(body)
        if d is None:
            return "bad", rp, None
        items += d
    st, units = encode_items(items, rp)
    return st, rp, units_to_bytes(units, rp)


# type of a character constant (6.4.4.4p10-11): '' int; u'' char16_t = uint_least16_t; U'' char32_t; L'' wchar_t
CHAR_TYPE = {"": ("int", 4, True), "u": ("ushort", 2, False), "U": ("uint", 4, False), "L": ("wchar_t", 4, None)}


def char_value(prefix, body):
    """-> (status, value as an unsigned bit pattern of the constant's width, or for prefix '' the int value).
    'impl': multi-character constants, a source character that needs several execution elements,
    out-of-range escapes."""
    d = decode_body(body)
    if d is None:
        return "bad", None
    if len(d) != 1:
        return "impl", None
    kind, v = d[0]
    if prefix == "":
        if kind == "cp":
            return ("ok", v) if v < 0x80 else ("impl", None)
        if v > 0xFF:
            return "impl", None
        return "ok", v - 256 if v >= 128 else v          # char is signed in the x86-64 psABI: (int)(char)v
    lim = (1 << (8 * ELEM[prefix])) - 1
    if kind == "esc":
        return ("ok", v) if v <= lim else ("impl", None)
    if prefix == "u" and v > 0xFFFF:
        return "impl", None
    return "ok", v


# ------------------------------------------------------------------ floating constants: suffix -> type only
def float_type(sp):
    s = sp[-1]
    return "float" if s in "fF" else "ldouble" if s in "lL" else "double"


# ------------------------------------------------------------------ Annex D
# D.1 Ranges of characters allowed
ANNEX_D1 = [
    (0x00A8, 0x00A8), (0x00AA, 0x00AA), (0x00AD, 0x00AD), (0x00AF, 0x00AF), (0x00B2, 0x00B5), (0x00B7, 0x00BA),
    (0x00BC, 0x00BE), (0x00C0, 0x00D6), (0x00D8, 0x00F6), (0x00F8, 0x00FF),
    (0x0100, 0x167F), (0x1681, 0x180D), (0x180F, 0x1FFF),
    (0x200B, 0x200D), (0x202A, 0x202E), (0x203F, 0x2040), (0x2054, 0x2054), (0x2060, 0x206F),
    (0x2070, 0x218F), (0x2460, 0x24FF), (0x2776, 0x2793), (0x2C00, 0x2DFF), (0x2E80, 0x2FFF),
    (0x3004, 0x3007), (0x3021, 0x302F), (0x3031, 0x303F),
    (0x3040, 0xD7FF),
    (0xF900, 0xFD3D), (0xFD40, 0xFDCF), (0xFDF0, 0xFE44), (0xFE47, 0xFFFD),
    (0x10000, 0x1FFFD), (0x20000, 0x2FFFD), (0x30000, 0x3FFFD), (0x40000, 0x4FFFD), (0x50000, 0x5FFFD),
    (0x60000, 0x6FFFD), (0x70000, 0x7FFFD), (0x80000, 0x8FFFD), (0x90000, 0x9FFFD), (0xA0000, 0xAFFFD),
    (0xB0000, 0xBFFFD), (0xC0000, 0xCFFFD), (0xD0000, 0xDFFFD), (0xE0000, 0xEFFFD),
]
# D.2 Ranges of characters disallowed initially
ANNEX_D2 = [(0x0300, 0x036F), (0x1DC0, 0x1DFF), (0x20D0, 0x20FF), (0xFE20, 0xFE2F)]


def _in(ranges, c):
    return any(lo <= c <= hi for lo, hi in ranges)


def ident_cont(c):
    """May c appear in an identifier after the first character?  '$' is an implementation-defined extension
    (6.4.2.1p1 'other implementation-defined characters'): returns None = not judged."""
    if c < 0x80:
        ch = chr(c)
        if ch == "$":
            return None
        return ch == "_" or ch.isalnum()
    return _in(ANNEX_D1, c)


def ident_start(c):
    if c < 0x80:
        ch = chr(c)
        if ch == "$":
            return None
        return ch == "_" or ch.isalpha()
    return _in(ANNEX_D1, c) and not _in(ANNEX_D2, c)


def ident_table_bytes(lo, hi):
    """bytes: for each code point in [lo, hi): bit0 = ident_start, bit1 = ident_cont, 0x80 = not judged."""
    out = bytearray(hi - lo)
    for a, b in ANNEX_D1:
        for c in range(max(a, lo), min(b + 1, hi)):
            out[c - lo] = 3
    for a, b in ANNEX_D2:
        for c in range(max(a, lo), min(b + 1, hi)):
            if out[c - lo]:
                out[c - lo] = 2
    for c in range(lo, min(hi, 0x80)):
        s, k = ident_start(c), ident_cont(c)
        out[c - lo] = 0x80 if s is None else (1 if s else 0) | (2 if k else 0)
    return bytes(out)
