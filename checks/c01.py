"""C01 integer expressions: C11 value and type.

E2 twin check.  Every case is one tiny function over typed file-scope operand slots; it is compiled by the chibicc
under test and by gcc -O0 (reference), evaluated by a gcc-compiled driver on a value grid that contains every
threshold of every integer type, and compared with (a) the gcc twin and (b) the reference model in
harness/c01_model.h (C11 6.3.1, 6.5 on 128-bit integers).  A tuple is judged only when model and gcc agree and the
model says the result is defined.  The expression's type (via _Generic) and sizeof are compared as compile-time tables.
"""
import os, re, itertools
from vlib import core, twin

LEVEL = "exploration"
BUDGET = {"quick": 900, "thorough": 3600}     # deadlines, not expected times (a loaded machine is 5-8x slower)

TYPES = ["_Bool", "char", "short", "int", "long", "unsigned char", "unsigned short", "unsigned int", "unsigned long"]
TN = ["bool", "char", "short", "int", "long", "uchar", "ushort", "uint", "ulong"]
SIZE = [1, 1, 2, 4, 8, 1, 2, 4, 8]
UNS = [1, 0, 0, 0, 0, 1, 1, 1, 1]
BINOPS = [("+", "O_ADD"), ("-", "O_SUB"), ("*", "O_MUL"), ("/", "O_DIV"), ("%", "O_MOD"), ("&", "O_AND"), ("|", "O_OR"),
          ("^", "O_XOR"), ("<<", "O_SHL"), (">>", "O_SHR"), ("<", "O_LT"), ("<=", "O_LE"), (">", "O_GT"), (">=", "O_GE"),
          ("==", "O_EQ"), ("!=", "O_NE"), ("&&", "O_LAND"), ("||", "O_LOR")]
ASSIGNOPS = BINOPS[:10]
UNOPS = [("-", "O_NEG"), ("~", "O_NOT"), ("!", "O_LNOT"), ("+", "O_POS")]
# bit-field operands (layer E): pseudo-types 9.. ; (member name, declaration, width, signed?, promoted type per C11 6.3.1.1p2)
BF = [("u1", "unsigned", 1, 0, 3), ("u3", "unsigned", 3, 0, 3), ("u16", "unsigned", 16, 0, 3), ("u31", "unsigned", 31, 0, 3),
      ("u32", "unsigned", 32, 0, 7), ("i1", "signed int", 1, 1, 3), ("i5", "signed int", 5, 1, 3), ("i31", "signed int", 31, 1, 3),
      ("i32", "signed int", 32, 1, 3), ("b1", "_Bool", 1, 0, 3)]
ENUM_T = 9 + len(BF)          # pseudo-type: object of an enumerated type with a negative enumerator (compatible type: int)
NT = ENUM_T + 1
GENERIC = "_Bool:0, char:1, short:2, int:3, long:4, unsigned char:5, unsigned short:6, unsigned int:7, unsigned long:8, default:99"


# ---- expression trees ---------------------------------------------------
def slot(i, t): return ("slot", i, t)
def text(n):
    k = n[0]
    if k == "slot":
        if n[2] == ENUM_T: return "FN(EN%d)" % n[1]
        if n[2] >= 9: return "FN(BF%d).%s" % (n[1], BF[n[2] - 9][0])
        return "FN(S%d_%s)" % (n[1], TN[n[2]])
    if k == "const": return n[3]
    if k == "bin": return "(%s %s %s)" % (text(n[2]), n[1][0], text(n[3]))
    if k == "un": return "(%s %s)" % (n[1][0], text(n[2]))
    if k == "cast": return "((%s)%s)" % (TYPES[n[1]], text(n[2]))
    if k == "cond": return "(%s ? %s : %s)" % (text(n[1]), text(n[2]), text(n[3]))
    if k == "comma": return "(%s , %s)" % (text(n[1]), text(n[2]))
    if k == "assignop": return "(%s %s= %s)" % (text(n[2]), n[1][0], text(n[3]))
    if k == "incdec":
        return {"O_PREINC": "(++%s)", "O_PREDEC": "(--%s)", "O_POSTINC": "(%s++)", "O_POSTDEC": "(%s--)"}[n[1]] % text(n[2])
    raise ValueError(k)


def emit_model(n, out):
    """Append MNode initializers for tree n to out; returns index."""
    k = n[0]
    def node(kk, a=0, b=0, l=-1, r=-1, c=-1):
        out.append("{%s,%s,%s,%d,%d,%d}" % (kk, a, b, l, r, c))
        return len(out) - 1
    if k == "slot": return node("K_SLOT", n[1], 3 if n[2] == ENUM_T else BF[n[2] - 9][4] if n[2] >= 9 else n[2])
    if k == "const": return node("K_CONST", c_lit(n[1]), n[2])
    if k == "bin":
        l = emit_model(n[2], out); r = emit_model(n[3], out); return node("K_BIN", n[1][1], 0, l, r)
    if k == "un":
        l = emit_model(n[2], out); return node("K_UN", n[1][1], 0, l)
    if k == "cast":
        l = emit_model(n[2], out); return node("K_CAST", n[1], 0, l)
    if k == "ctx":
        l = emit_model(n[2], out); return node("K_CONVCTX", n[1], 0, l)
    if k == "truth":
        l = emit_model(n[1], out); return node("K_TRUTH", 0, 0, l)
    if k == "cond":
        c = emit_model(n[1], out); l = emit_model(n[2], out); r = emit_model(n[3], out); return node("K_COND", 0, 0, l, r, c)
    if k == "comma":
        l = emit_model(n[1], out); r = emit_model(n[2], out); return node("K_COMMA", 0, 0, l, r)
    if k == "assignop":
        l = emit_model(n[2], out); r = emit_model(n[3], out); return node("K_ASSIGNOP", n[1][1], 0, l, r)
    if k == "incdec":
        l = emit_model(n[2], out); return node("K_INCDEC", n[1], 0, l)
    raise ValueError(k)


class Case:
    __slots__ = ("cid", "tree", "body", "slots", "typed", "final", "helpers", "grid")
    def __init__(self, cid, tree, slots, body=None, typed=True, final=-1, helpers="", grid="full"):
        self.cid, self.tree, self.slots, self.body, self.typed, self.final, self.helpers, self.grid = \
            cid, tree, slots, body, typed, final, helpers, grid


def gen_cases(tier):
    cases = []
    T = range(9)
    # Layer A: binary operators, all 81 type pairs
    for op in BINOPS:
        for a in T:
            for b in T:
                cases.append(Case("A/bin/%s/%s,%s" % (op[0], TN[a], TN[b]), ("bin", op, slot(0, a), slot(1, b)), [a, b]))
    for op in UNOPS:
        for a in T:
            cases.append(Case("A/un/%s/%s" % (op[0], TN[a]), ("un", op, slot(0, a)), [a]))
    for a in T:
        for b in T:
            cases.append(Case("A/cast/%s<-%s" % (TN[a], TN[b]), ("cast", a, slot(0, b)), [b]))
            cases.append(Case("A/cond/%s,%s" % (TN[a], TN[b]), ("cond", slot(2, 3), slot(0, a), slot(1, b)), [a, b, 3], grid="cond"))
            cases.append(Case("A/comma/%s,%s" % (TN[a], TN[b]), ("comma", slot(0, a), slot(1, b)), [a, b], grid="small"))
    # enumeration constants (type int) as operands
    for op in BINOPS:
        for b in T:
            for ev, en in ((-5, "FN(E_NEG)"), (2147483647, "FN(E_MAX)")):
                cases.append(Case("A/enum/%s/%s/%s" % (op[0], "neg" if ev < 0 else "max", TN[b]),
                                  ("bin", op, ("const", ev, 3, en), slot(1, b)), [0, b]))
    # Layer B: conversion contexts
    for d in T:
        for s in T:
            x = slot(0, s); X = text(x); D = TYPES[d]
            ct = ("ctx", d, x)
            cases.append(Case("B/init/%s<-%s" % (TN[d], TN[s]), ct, [s], body="%s d = %s; return (long)d;" % (D, X), typed=False))
            cases.append(Case("B/assign/%s<-%s" % (TN[d], TN[s]), ct, [s], body="%s d; d = %s; return (long)d;" % (D, X), typed=False))
            cases.append(Case("B/assignval/%s<-%s" % (TN[d], TN[s]), ct, [s], body="%s d; return (long)(d = %s);" % (D, X), typed=False))
            cases.append(Case("B/arg/%s<-%s" % (TN[d], TN[s]), ct, [s], body="return FN(arg_%s)(%s);" % (TN[d], X), typed=False))
            cases.append(Case("B/ret/%s<-%s" % (TN[d], TN[s]), ct, [s], body="return (long)FN(r_@)();", typed=False,
                              helpers="static %s FN(r_@)(void) { return %s; }\n" % (D, X)))
            for op in ASSIGNOPS:
                lv = slot(0, d)
                cases.append(Case("B/assignop/%s=/%s,%s" % (op[0], TN[d], TN[s]), ("assignop", op, lv, slot(1, s)), [d, s], final=0))
    for d in T:
        x = slot(0, d); X = text(x)
        for kind, body in (("if", "if (%s) return 1; return 0;"), ("while", "while (%s) return 1; return 0;"),
                           ("for", "for (; %s;) return 1; return 0;"), ("do", "int n = 0; do { if (n++) return 1; } while (%s); return 0;"),
                           ("cond", "return %s ? 1 : 0;"), ("not", "return !%s ? 0 : 1;"), ("land", "return %s && 1;"),
                           ("lor", "return 0 || %s;")):
            cases.append(Case("B/truth/%s/%s" % (kind, TN[d]), ("truth", x), [d], body=body % X, typed=False))
        for op in ("O_PREINC", "O_PREDEC", "O_POSTINC", "O_POSTDEC"):
            cases.append(Case("B/incdec/%s/%s" % (op[2:].lower(), TN[d]), ("incdec", op, x), [d], final=0))
            # same on a local copy (automatic storage)
            cases.append(Case("B/incdec-local/%s/%s" % (op[2:].lower(), TN[d]), ("incdec", op, x), [d], final=0, typed=False,
                              body="%s d = %s; long r = (long)%s; %s = d; return r;" % (TYPES[d], X, text(("incdec", op, ("const", 0, d, "d"))), X)))
    # Layer E: bit-field operands are promoted by their width (6.3.1.1p2): unsigned:w with w < 32 and every signed/_Bool field -> int
    for k in range(len(BF)):
        b = 9 + k
        for op in BINOPS:
            for t in T:
                cases.append(Case("E/bf-op/%s/%s,%s" % (op[0], tname(b), TN[t]), ("bin", op, slot(0, b), slot(1, t)), [b, t], grid="small"))
                cases.append(Case("E/op-bf/%s/%s,%s" % (op[0], TN[t], tname(b)), ("bin", op, slot(0, t), slot(1, b)), [t, b], grid="small"))
            for k2 in range(len(BF)):
                cases.append(Case("E/bf-bf/%s/%s,%s" % (op[0], tname(b), tname(9 + k2)), ("bin", op, slot(0, b), slot(1, 9 + k2)), [b, 9 + k2], grid="small"))
        for op in UNOPS:
            cases.append(Case("E/un/%s/%s" % (op[0], tname(b)), ("un", op, slot(0, b)), [b]))
        for d in T:
            cases.append(Case("E/cast/%s<-%s" % (TN[d], tname(b)), ("cast", d, slot(0, b)), [b]))
            cases.append(Case("E/cond/%s,%s" % (tname(b), TN[d]), ("cond", slot(2, 3), slot(0, b), slot(1, d)), [b, d, 3], grid="cond"))
    # Layer F: objects of enumerated type as operands and conversion sources (they behave as int)
    for op in BINOPS:
        for t in T:
            cases.append(Case("F/enum-op/%s/%s" % (op[0], TN[t]), ("bin", op, slot(0, ENUM_T), slot(1, t)), [ENUM_T, t], grid="small", typed=False))
            cases.append(Case("F/op-enum/%s/%s" % (op[0], TN[t]), ("bin", op, slot(0, t), slot(1, ENUM_T)), [t, ENUM_T], grid="small", typed=False))
    for op in UNOPS:
        cases.append(Case("F/un/%s/enum" % op[0], ("un", op, slot(0, ENUM_T)), [ENUM_T], typed=False))
    for d in T:
        cases.append(Case("F/cast/%s<-enum" % TN[d], ("cast", d, slot(0, ENUM_T)), [ENUM_T], typed=False))
    for fl in ("float", "double", "long double"):
        # conversion to a floating type must agree with the conversion of the same value held in an int
        cases.append(Case("F/via-%s/enum" % fl.replace(" ", ""), ("const", 1, 3, "1"), [ENUM_T], typed=False,
                          body="%s f = %s; int i = %s; %s g = i; return f == g;" % (fl, text(slot(0, ENUM_T)), text(slot(0, ENUM_T)), fl)))
    # Layer G: a literal constant as one operand (the compiler sees the value: strength reduction, folding, immediate
    # operands).  Constants of every rank and signedness, spelled with suffixes and with casts, powers of two and thresholds.
    def K(v, t, sfx=""): return ("const", v, t, "%d%s" % (v, sfx))
    NEG = UNOPS[0]
    consts = [K(v, 3) for v in (0, 1, 2, 4, 8, 16, 31, 32, 64, 128, 256, 65536, 2147483647)]
    consts += [("un", NEG, K(v, 3)) for v in (1, 8, 128)]
    consts += [K(v, 7, "u") for v in (1, 2, 4, 8, 32, 256, 2147483648, 4294967295)]
    consts += [K(v, 4, "L") for v in (1, 4, 8, 4294967296)] + [("un", NEG, K(v, 4, "L")) for v in (1, 8)]
    consts += [K(v, 8, "UL") for v in (4, 8, 9223372036854775808, 18446744073709551615)]
    consts += [("cast", 5, K(v, 3)) for v in (1, 8, 128, 255)] + [("cast", 6, K(v, 3)) for v in (8, 65535)]
    consts += [("cast", 1, K(8, 3)), ("cast", 1, ("un", NEG, K(8, 3))), ("cast", 2, K(16, 3)), ("cast", 2, ("un", NEG, K(8, 3))), ("cast", 0, K(1, 3))]
    if tier == "quick":
        consts = [c for i, c in enumerate(consts) if i % 2 == 0 or c[0] != "const"]
    for op in BINOPS:
        for t in T:
            for ci, c in enumerate(consts):
                ct = text(c).replace(" ", "")
                cases.append(Case("G/var-const/%s/%s,%s" % (op[0], TN[t], ct), ("bin", op, slot(0, t), c), [t], grid="small"))
                cases.append(Case("G/const-var/%s/%s,%s" % (op[0], ct, TN[t]), ("bin", op, c, slot(0, t)), [t], grid="small"))
    for op in ASSIGNOPS:
        for t in T:
            for c in consts:
                cases.append(Case("G/assignop-const/%s=/%s,%s" % (op[0], TN[t], text(c).replace(" ", "")), ("assignop", op, slot(0, t), c), [t], final=0, grid="small"))
    # Layer D: pointer arithmetic / difference / comparison; element sizes 1..24, integer operand of every type
    MUL, ADD, SUB = BINOPS[2], BINOPS[0], BINOPS[1]
    def scaled(sl, sz): return ("bin", MUL, ("cast", 4, sl), ("const", sz, 4, str(sz)))
    for sz in ELEM:
        P = "((E%d *)(FN(arena) + 8192 + FN(S0_long) * %d))" % (sz, sz)
        Q = "((E%d *)(FN(arena) + 8192 + FN(S1_long) * %d))" % (sz, sz)
        OFF = "(long)((char *)(%s) - (FN(arena) + 8192))"
        for t in T:
            N = text(slot(1, t))
            p0, n1 = scaled(slot(0, 4), sz), scaled(slot(1, t), sz)
            for kind, body, tree in (
                    ("p+n", "return " + OFF % ("%s + %s" % (P, N)) + ";", ("bin", ADD, p0, n1)),
                    ("n+p", "return " + OFF % ("%s + %s" % (N, P)) + ";", ("bin", ADD, p0, n1)),
                    ("p-n", "return " + OFF % ("%s - %s" % (P, N)) + ";", ("bin", SUB, p0, n1)),
                    ("&p[n]", "return " + OFF % ("&%s[%s]" % (P, N)) + ";", ("bin", ADD, p0, n1)),
                    ("&n[p]", "return " + OFF % ("&%s[%s]" % (N, P)) + ";", ("bin", ADD, p0, n1)),
                    ("p+=n", "E%d *p = %s; p += %s; return " % (sz, P, N) + OFF % "p" + ";", ("bin", ADD, p0, n1)),
                    ("p-=n", "E%d *p = %s; p -= %s; return " % (sz, P, N) + OFF % "p" + ";", ("bin", SUB, p0, n1)),
                    ("(p+=n)", "E%d *p = %s; return " % (sz, P) + OFF % ("p += %s" % N) + ";", ("bin", ADD, p0, n1))):
                cases.append(Case("D/%s/E%d/%s" % (kind, sz, TN[t]), tree, [4, t], body=body, typed=False, grid="ptr"))
        one = ("const", sz, 4, "")
        for kind, body, tree in (
                ("p++", "E%d *p = %s; p++; return " % (sz, P) + OFF % "p" + ";", ("bin", ADD, scaled(slot(0, 4), sz), one)),
                ("p--", "E%d *p = %s; p--; return " % (sz, P) + OFF % "p" + ";", ("bin", SUB, scaled(slot(0, 4), sz), one)),
                ("++p", "E%d *p = %s; return " % (sz, P) + OFF % "++p" + ";", ("bin", ADD, scaled(slot(0, 4), sz), one)),
                ("--p", "E%d *p = %s; return " % (sz, P) + OFF % "--p" + ";", ("bin", SUB, scaled(slot(0, 4), sz), one)),
                ("(p++)", "E%d *p = %s; return " % (sz, P) + OFF % "p++" + ";", scaled(slot(0, 4), sz)),
                ("(p--)", "E%d *p = %s; return " % (sz, P) + OFF % "p--" + ";", scaled(slot(0, 4), sz))):
            cases.append(Case("D/%s/E%d" % (kind, sz), tree, [4], body=body, typed=False, grid="ptr"))
        cases.append(Case("D/p-q/E%d" % sz, ("bin", SUB, slot(0, 4), slot(1, 4)), [4, 4], body="return (long)(%s - %s);" % (P, Q), typed=False, grid="ptr"))
        cases.append(Case("D/sizeof(p-q)/E%d" % sz, ("const", 8, 4, ""), [4], body="return sizeof(%s - %s) + 0 * FN(S0_long);" % (P, P), typed=False, grid="ptr"))
        for op in BINOPS[10:16]:
            cases.append(Case("D/p%sq/E%d" % (op[0], sz), ("bin", op, slot(0, 4), slot(1, 4)), [4, 4], body="return %s %s %s;" % (P, op[0], Q), typed=False, grid="ptr"))
    # Layer C: composition
    R = [1, 6, 3, 7, 4, 8] if tier == "quick" else list(T)
    gl, gs = ("tiny", "small") if tier == "quick" else ("small", "mid")
    for o1 in BINOPS:
        for o2 in BINOPS:
            for a in R:
                for b in R:
                    for c in ([1, 6, 3, 7, 4, 8] if tier == "thorough" else R):
                        cases.append(Case("C/l/%s/%s/%s,%s,%s" % (o1[0], o2[0], TN[a], TN[b], TN[c]),
                                          ("bin", o2, ("bin", o1, slot(0, a), slot(1, b)), slot(2, c)), [a, b, c], grid="tiny"))
                    if tier == "thorough" and a in (1, 6, 3, 7, 4, 8):
                        for c in (1, 6, 3, 7, 4, 8):
                            cases.append(Case("C/r/%s/%s/%s,%s,%s" % (o1[0], o2[0], TN[a], TN[b], TN[c]),
                                              ("bin", o1, slot(0, a), ("bin", o2, slot(1, b), slot(2, c))), [a, b, c], grid="tiny"))
    for u in UNOPS:
        for o in BINOPS:
            for a in R:
                for b in R:
                    cases.append(Case("C/u/%s/%s/%s,%s" % (u[0], o[0], TN[a], TN[b]),
                                      ("un", u, ("bin", o, slot(0, a), slot(1, b))), [a, b], grid=gs))
                    cases.append(Case("C/b/%s/%s/%s,%s" % (o[0], u[0], TN[a], TN[b]),
                                      ("bin", o, ("un", u, slot(0, a)), slot(1, b)), [a, b], grid=gs))
    for d in T:   # cast of a binary result, and cast operand of a binary op
        for o in BINOPS[:10]:
            for a in R:
                for b in R:
                    cases.append(Case("C/cast/%s/%s/%s,%s" % (TN[d], o[0], TN[a], TN[b]),
                                      ("cast", d, ("bin", o, slot(0, a), slot(1, b))), [a, b], grid=gs))
    return cases


# ---- pointer layer (separate small generator, own driver section) --------
ELEM = [1, 2, 3, 4, 8, 12, 24]


def tname(t):
    return TN[t] if t < 9 else "enum" if t == ENUM_T else "bf:" + BF[t - 9][0]


def grid_values(t, kind):
    if t == ENUM_T:
        return grid_values(3, kind if kind != "full" else "small")
    if t >= 9:
        name, decl, w, sg, prom = BF[t - 9]
        lo, hi = (-(1 << (w - 1)), (1 << (w - 1)) - 1) if sg else (0, (1 << w) - 1)
        base = [0, 1, 2, 3, 4, 5, 7, 15, 16, 31, 127, 128, 255, 32767, 32768, 65535, lo, lo + 1, hi, hi - 1, hi // 2, -1, -2, -16]
        return sorted(set(v for v in base if lo <= v <= hi))
    lo = 0 if UNS[t] else -(1 << (SIZE[t] * 8 - 1))
    hi = 1 if t == 0 else ((1 << (SIZE[t] * 8)) - 1 if UNS[t] else (1 << (SIZE[t] * 8 - 1)) - 1)
    if kind == "ptr":
        return [v for v in range(-40, 41) if lo <= v <= hi]
    if kind == "tiny":
        base = [0, 1, 2, -1, 7, 31, 32, 63, 64, 127, 128, 255, 256, 32767, 32768, 65535, 65536, 2147483647, 2147483648, 4294967295, 4294967296,
                lo, hi, lo + 1, hi - 1, -2, -128, -129, -32768, -2147483648, -2147483649]
    else:
        if SIZE[t] == 1 and kind == "full":
            return list(range(lo, hi + 1))
        base = list(range(0, 66)) + [-x for x in range(1, 66)]
        for p in (7, 8, 15, 16, 31, 32, 63, 64):
            for d in (-2, -1, 0, 1, 2):
                base += [(1 << p) + d, -(1 << p) + d]
        base += [lo, lo + 1, lo + 2, hi, hi - 1, hi - 2, hi // 2, hi // 3, 0x5555555555555555, 0x1234567, -0x1234567, 10, 100, 1000, -1000, 46341, 46340, 3037000500, 3037000499]
        if kind == "mid":
            base = [v for v in base if abs(v) < 4 or abs(v) > 60]
        if kind in ("small", "cond"):
            base = [0, 1, -1, 2, 127, 128, 255, 256, 32767, 32768, 65535, 65536, 2147483647, 2147483648, 4294967295, 4294967296, lo, hi, lo + 1, hi - 1]
    vals = sorted(set(v for v in base if lo <= v <= hi))
    return vals


def c_lit(v):
    if v == -(1 << 63):
        return "(-9223372036854775807L-1)"
    if v >= (1 << 63):
        return "(long)%dUL" % v
    return "%dL" % v


def build_batch(bidx, cases):
    """Returns (unit_src, driver_src)."""
    u = []
    for s in range(3):
        for t in range(9):
            u.append("%s FN(S%d_%s);" % (TYPES[t], s, TN[t]))
    u.append("enum { FN(E_NEG) = -5, FN(E_MAX) = 2147483647 };")
    u.append("struct FN(BFS) { %s };" % " ".join("%s %s:%d;" % (d, n, w) for n, d, w, sg, pr in BF))
    u.append("struct FN(BFS) FN(BF0), FN(BF1);")
    u.append("enum FN(En) { FN(En_neg) = -1, FN(En_pos) = 1 }; enum FN(En) FN(EN0), FN(EN1);")
    u.append("char FN(arena)[16384];")
    for sz in ELEM:
        u.append("typedef struct { char c[%d]; } E%d;" % (sz, sz))
    for t in range(9):
        u.append("long FN(arg_%s)(%s p) { return (long)p; }" % (TN[t], TYPES[t]))
    tys, szs = [], []
    for i, c in enumerate(cases):
        if c.helpers:
            u.append(c.helpers.replace("@", str(i)))
        body = (c.body or "return (long)%s;" % text(c.tree)).replace("@", str(i))
        u.append("long FN(f%d)(void) { %s }" % (i, body))
        if c.typed:
            tys.append("_Generic(%s, %s)" % (text(c.tree), GENERIC)); szs.append("sizeof(%s)" % text(c.tree))
        else:
            tys.append("-1"); szs.append("-1")
    u.append("int FN(types)[] = {%s};" % ",\n".join(tys))
    u.append("int FN(sizes)[] = {%s};" % ",\n".join(szs))
    unit = "\n".join(u) + "\n"

    d = ['#include "%s"' % os.path.join(core.VERIF, "harness/c01_model.h")]
    for pfx in ("cc_", "ref_"):
        for s in range(3):
            for t in range(9):
                d.append("extern %s %sS%d_%s;" % (TYPES[t], pfx, s, TN[t]))
        d.append("struct %sBFS { %s }; extern struct %sBFS %sBF0, %sBF1;" % (pfx, " ".join("%s %s:%d;" % (dd, n, w) for n, dd, w, sg, pr in BF), pfx, pfx, pfx))
        d.append("extern int %sEN0, %sEN1;" % (pfx, pfx))
        d.append("extern int %stypes[], %ssizes[];" % (pfx, pfx))
        for i in range(len(cases)):
            d.append("long %sf%d(void);" % (pfx, i))
    d.append("static void set_slot(int s, int t, long v) { switch (s * %d + t) {" % NT)
    for s in range(3):
        for t in range(9):
            d.append("case %d: cc_S%d_%s = (%s)v; ref_S%d_%s = (%s)v; break;" % (s * NT + t, s, TN[t], TYPES[t], s, TN[t], TYPES[t]))
        if s < 2:
            for k, (n, dd, w, sg, pr) in enumerate(BF):
                d.append("case %d: cc_BF%d.%s = v; ref_BF%d.%s = v; break;" % (s * NT + 9 + k, s, n, s, n))
            d.append("case %d: cc_EN%d = (int)v; ref_EN%d = (int)v; break;" % (s * NT + ENUM_T, s, s))
    d.append("} }")
    d.append("static long get_slot(int cc, int s, int t) { switch (s * %d + t) {" % NT)
    for s in range(3):
        for t in range(9):
            d.append("case %d: return cc ? (long)cc_S%d_%s : (long)ref_S%d_%s;" % (s * NT + t, s, TN[t], s, TN[t]))
    d.append("} return 0; }")
    nodes = []
    rows = []
    grids = {}
    for i, c in enumerate(cases):
        root = emit_model(c.tree, nodes)
        gi = []
        for t in c.slots:
            key = (t, c.grid)
            if key not in grids:
                grids[key] = len(grids)
            gi.append(grids[key])
        while len(gi) < 3:
            gi.append(-1)
        st = list(c.slots) + [0] * (3 - len(c.slots))
        rows.append("{%d,%d,{%d,%d,%d},{%d,%d,%d},%d,%d,cc_f%d,ref_f%d}" % (root, len(c.slots), st[0], st[1], st[2], gi[0], gi[1], gi[2], c.final, 1 if c.typed else 0, i, i))
    d.append("static const MNode nodes[] = {%s};" % ",\n".join(nodes))
    for (t, kind), gidx in grids.items():
        d.append("static const long grid%d[] = {%s};" % (gidx, ",".join(c_lit(v) for v in grid_values(t, kind))))
    d.append("static const long *grids[] = {%s};" % ",".join("grid%d" % g for g in range(len(grids))))
    d.append("static const int gridn[] = {%s};" % ",".join("sizeof(grid%d)/sizeof(long)" % g for g in range(len(grids))))
    d.append("typedef struct { int root, ns, st[3], g[3], final, typed; long (*cc)(void); long (*ref)(void); } Row;")
    d.append("static const Row rows[] = {%s};" % ",\n".join(rows))
    d.append(r'''
#include <signal.h>
#include <setjmp.h>
static sigjmp_buf cc_trap; static volatile int in_cc;
static void on_sig(int sig) { if (in_cc) siglongjmp(cc_trap, sig); _exit(70); }
int main(void) {
  signal(SIGFPE, on_sig); signal(SIGSEGV, on_sig); signal(SIGILL, on_sig); signal(SIGBUS, on_sig);
  long evals = 0, skipped = 0, odis = 0;
  int ncases = sizeof(rows) / sizeof(rows[0]);
  for (int i = 0; i < ncases; i++) {
    const Row *r = &rows[i];
    int und = 0;
    m_slot[0] = m_slot[1] = m_slot[2] = 0;
    if (r->typed) {
      MVal tv = m_eval(nodes, r->root, &und);
      int msz = ty_size[tv.t];
      if (ref_types[i] != tv.t || ref_sizes[i] != msz) { printf("O %d type ref=%d,%d model=%d,%d\n", i, ref_types[i], ref_sizes[i], tv.t, msz); odis++; }
      else if (cc_types[i] != tv.t || cc_sizes[i] != msz) printf("T %d cc=%d,%d want=%d,%d\n", i, cc_types[i], cc_sizes[i], tv.t, msz);
    }
    long nbad = 0, judged = 0;
    int n0 = gridn[r->g[0]], n1 = r->ns > 1 ? gridn[r->g[1]] : 1, n2 = r->ns > 2 ? gridn[r->g[2]] : 1;
    for (int a = 0; a < n0; a++) for (int b = 0; b < n1; b++) for (int c = 0; c < n2; c++) {
      long v[3] = {grids[r->g[0]][a], r->ns > 1 ? grids[r->g[1]][b] : 0, r->ns > 2 ? grids[r->g[2]][c] : 0};
      for (int s = 0; s < r->ns; s++) { set_slot(s, r->st[s], v[s]); m_slot[s] = v[s]; }
      und = 0; m_final_set = 0;
      MVal mv = m_eval(nodes, r->root, &und);
      evals++;
      if (und) { skipped++; continue; }
      long want = (long)conv(mv.v, ty_uns[mv.t] && ty_size[mv.t] == 8 ? T_ULONG : T_LONG);
      long rv = r->ref();
      long rfin = r->final >= 0 ? get_slot(0, r->final, r->st[r->final]) : 0;
      for (int s = 0; s < r->ns; s++) set_slot(s, r->st[s], v[s]);
      long cv; int sg;
      if ((sg = sigsetjmp(cc_trap, 1)) == 0) { in_cc = 1; cv = r->cc(); in_cc = 0; }
      else { in_cc = 0; if (nbad++ < 2) printf("V %d %ld %ld %ld cc=signal%d/0 want=%ld/%ld\n", i, v[0], v[1], v[2], sg, want, r->final >= 0 ? (long)conv(m_final, T_LONG) : 0); continue; }
      long cfin = r->final >= 0 ? get_slot(1, r->final, r->st[r->final]) : 0;
      long mfin = r->final >= 0 ? (long)conv(m_final, T_LONG) : 0;
      if (rv != want || rfin != mfin) { if (odis++ < 50) printf("O %d %ld %ld %ld ref=%ld/%ld model=%ld/%ld\n", i, v[0], v[1], v[2], rv, rfin, want, mfin); continue; }
      judged++;
      if (cv != want || cfin != mfin) { if (nbad++ < 2) printf("V %d %ld %ld %ld cc=%ld/%ld want=%ld/%ld\n", i, v[0], v[1], v[2], cv, cfin, want, mfin); }
    }
    if (nbad) printf("N %d %ld\n", i, nbad);
    printf("J %d %ld\n", i, judged);
  }
  printf("S evals=%ld skipped=%ld odis=%ld\n", evals, skipped, odis);
  return 0;
}
''')
    return unit, "\n".join(d) + "\n"


def _run_batch(args):
    ctx_chibicc, wd, bidx, cases = args

    class C:  # minimal ctx stand-in for twin (picklable args only)
        chibicc = ctx_chibicc
    unit, drv = build_batch(bidx, cases)
    res = twin.twin_run(C, wd, "b%d" % bidx, unit, drv, run_timeout=600)
    return bidx, res, unit


def _bisect_ccfail(chibicc, wd, cases):
    """Find single cases chibicc rejects (compile only)."""
    class C:
        chibicc = None
    C.chibicc = chibicc
    bad = []
    stack = [cases]
    n = 0
    while stack and n < 200:
        cs = stack.pop()
        unit, drv = build_batch(0, cs)
        p = os.path.join(wd, "bis.c")
        with open(p, "w") as f:
            f.write(twin.PRELUDE + unit)
        ok, stage, st, err = twin.cc_compile(C, p, os.path.join(wd, "bis.o"), ["-DPFX=cc_"], cwd=wd)
        n += 1
        if ok:
            continue
        if len(cs) == 1:
            bad.append((cs[0], stage, st, err, twin.PRELUDE + unit))
        else:
            stack.append(cs[:len(cs) // 2]); stack.append(cs[len(cs) // 2:])
    return bad


def replay_script(cid):
    return ("# rebuilds the single case and compares chibicc against gcc on the recorded operand tuple\n"
            "$CHIBICC -DPFX=cc_ -c -o cc.o unit.c || exit 1\n"
            "gcc -O0 -fwrapv -fno-pie -w -DPFX=ref_ -c -o ref.o unit.c || exit 0\n"
            "gcc -O1 -w -fno-pie -no-pie -o drv driver.c cc.o ref.o -Wl,-z,noexecstack || exit 0\n"
            "./drv | grep -q '^[VT] ' && exit 1\nexit 0")


def run(ctx):
    cases = gen_cases(ctx.tier)
    per = 1200
    batches = core.chunks(cases, per)
    args = [(ctx.chibicc, os.path.join(ctx.work, "b%d" % i), i, b) for i, b in enumerate(batches)]
    evals = skipped = odis = 0
    judged_cases = 0
    done = 0
    for grp in core.chunks(args, core.NPROC):
        if ctx.out_of_time(reserve=60):
            ctx.incomplete("deadline: %d of %d batches finished" % (done, len(batches)))
            break
        for bidx, res, unit in core.pmap(_run_batch, grp):
            done += 1
            bc = batches[bidx]
            if res["status"] == "harness":
                raise core.HarnessError("reference side failed in batch %d (%s): %s" % (bidx, res["stage"], res["stderr"][-1500:]))
            if res["status"] == "cc-fail":
                for c, stage, st, err, src in _bisect_ccfail(ctx.chibicc, ctx.mkdir("bis%d" % bidx), bc):
                    first = (err.strip().splitlines() or [""])[-1][:200]
                    ctx.violation("C01|rejected|%s|%s:%s" % (c.cid, stage, st), "valid expression rejected/crashed: %s -> %s" % (c.cid, first),
                                  files={"unit.c": src}, replay="$CHIBICC -DPFX=cc_ -c -o cc.o unit.c && exit 0; exit 1")
                continue
            if res["code"] != 0:
                raise core.HarnessError("driver crashed in batch %d: code=%s %s" % (bidx, res["code"], res["stderr"][-500:]))
            out = res["stdout"]
            m = re.search(r"^S evals=(\d+) skipped=(\d+) odis=(\d+)", out, re.M)
            if not m:
                raise core.HarnessError("no summary from driver batch %d" % bidx)
            evals += int(m.group(1)); skipped += int(m.group(2)); odis += int(m.group(3))
            judged = dict((int(a), int(b)) for a, b in re.findall(r"^J (\d+) (\d+)", out, re.M))
            judged_cases += sum(1 for v in judged.values() if v > 0)
            counts = dict((int(a), int(b)) for a, b in re.findall(r"^N (\d+) (\d+)", out, re.M))
            drv = None
            for line in out.splitlines():
                if line.startswith("O "):
                    ctx.cover(oracle_disagreement_lines=1)
                    ctx.sample({"oracle_disagreement": line, "case": bc[int(line.split()[1])].cid}, limit=8)
                elif line.startswith("T ") or line.startswith("V "):
                    i = int(line.split()[1])
                    c = bc[i]
                    u1, d1 = build_batch(0, [c])
                    if line.startswith("T "):
                        mm = re.match(r"T \d+ cc=(-?\d+),(-?\d+) want=(\d+),(\d+)", line)
                        got = TN[int(mm.group(1))] if 0 <= int(mm.group(1)) < 9 else mm.group(1)
                        sig = "C01|type|%s|got=%s,want=%s" % (c.cid, got, TN[int(mm.group(3))])
                        desc = "type of %s is %s (sizeof %s), C11 says %s" % (text(c.tree), got, mm.group(2), TN[int(mm.group(3))])
                    else:
                        sig = "C01|value|%s" % c.cid
                        desc = "%s: %s (%d failing operand tuples)" % (c.cid, line, counts.get(i, 1))
                    ctx.violation(sig, desc, files={"unit.c": twin.PRELUDE + u1, "driver.c": d1}, replay=replay_script(c.cid))
    if odis:
        raise core.HarnessError("model and gcc disagree on %d tuples (see samples) - the model must be corrected" % odis)
    ctx.cover(evaluations=evals, skipped_undefined=skipped, cases=len(cases), distinct_nontrivial=judged_cases,
              rule="one case = one (construct, operator, operand-type tuple) function; evaluated on the full threshold grid of its "
                   "operand types; non-trivial = at least one operand tuple had a C11-defined result on which model and gcc agreed",
              layers="A: 18 binary ops x 81 type pairs, 4 unary x 9, 81 casts, ?:, comma, enum constants; "
                     "B: init/assign/arg/return conversions 81 pairs, 10 op= x 81, ++/-- x 9 (global and local), 8 truth contexts x 9; "
                     "C: (a o1 b) o2 c [thorough: all 9x9 left types, and a o1 (b o2 c)], unary-of-binary, binary-of-unary, cast-of-binary; "
                     "D: pointer +,-,[],+=,-=,++,-- for element sizes 1,2,3,4,8,12,24 x integer operand of each type; pointer difference; 6 pointer comparisons; "
                     "E/F: bit-field and enum-object operands; G: 18 binary ops and 10 op= with a literal constant operand on either side "
                     "(45 constants [quick: 31] of every rank/signedness spelled with suffixes and casts: powers of two, thresholds, negatives) x 9 types")
    for c in (cases[0], cases[len(cases) // 2], cases[-1]):
        ctx.sample({"case": c.cid, "function": (c.body or "return (long)%s;" % text(c.tree)),
                    "grid_sizes": [len(grid_values(t, c.grid)) for t in c.slots]})
    if judged_cases < len(cases) * 0.9 and ctx.exhaustive:
        raise core.HarnessError("vacuous: only %d of %d cases had judged tuples" % (judged_cases, len(cases)))
    ctx.assume("implementation-defined integer behaviour is fixed as the platform documents it: out-of-range conversion to a signed type wraps, >> of negative values is arithmetic")
    ctx.assume("gcc 12 -O0 -fwrapv and the 128-bit reference model agree on every judged tuple (enforced; disagreement = harness error)")
    ctx.assume("values between grid points of >=16-bit types are not explored")
