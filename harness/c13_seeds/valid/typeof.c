int f(int x) {
  typeof(x) y = x;
  typeof(int *) p = &y;
  __typeof__(*p) z = *p;
  return z;
}
