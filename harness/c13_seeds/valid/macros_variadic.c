#define LOG(fmt, ...) g(fmt, __VA_ARGS__)
#define L2(...) g(0 __VA_OPT__(,) __VA_ARGS__)
int g(int, ...);
int f(void) { return LOG(1, 2, 3) + L2() + L2(4); }
