int f(void) { int *; return 0; }
