int f(_Alignas(8) int x);
