#define foo fo ## o
int foo = 3;
