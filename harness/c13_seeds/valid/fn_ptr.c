int add(int a, int b) { return a + b; }
int (*tbl[2])(int, int) = {add, &add};
int call(int (*f)(int, int), int x) { return f(x, 1) + (*tbl[0])(2, 3) + tbl[1](4, 5); }
