// Reference model for C02: C11 arithmetic conversions and floating operations on x86-64 (FLT_EVAL_METHOD 0,
// IEC 60559 / Annex F semantics: binary32, binary64, x87 extended; round-to-nearest-even).
//
// Independence from the gcc twin: the twin uses the hardware paths (cvtsi2ss, cvttsd2si, addss, fistp, ucomisd, ...).
// The model routes everything through binary128 soft-float (libgcc __floattitf, __fixtfti, __trunctfsf2, __addtf3,
// __lttf2, ...) in noinline helpers, and classifies NaN / inf / zero / sign by looking at object bytes:
//   int -> fp      exact i128 -> binary128, one rounding binary128 -> target
//   fp  -> int     binary128 -> i128 truncation; defined only when the truncated value fits (C11 6.3.1.4)
//   fp  -> fp      one rounding binary128 -> target
//   + - * /        float/double: binary128 result narrowed once (double rounding is innocuous: 113 >= 2*53+2);
//                  long double: binary128 result narrowed once unless it is a 64-bit tie pattern or a subnormal
//                  off-grid value, where a second rounding could differ -> "no model", judged by the twin alone
//   comparisons    binary128 compare, unordered when an operand has NaN bytes
//   - (negate)     sign byte flipped;  truth value: non-zero bytes pattern, NaN is true
#include <stdint.h>
#include <string.h>
#include <stdio.h>
#include <stdlib.h>
typedef __int128 i128;
typedef __float128 q128;
enum { T_BOOL, T_CHAR, T_SHORT, T_INT, T_LONG, T_UCHAR, T_USHORT, T_UINT, T_ULONG, T_FLOAT, T_DOUBLE, T_LDOUBLE, NTYPES };
static const int ty_size[NTYPES] = {1, 1, 2, 4, 8, 1, 2, 4, 8, 4, 8, 16};
static const int ty_uns[NTYPES] = {1, 0, 0, 0, 0, 1, 1, 1, 1, 0, 0, 0};
static const char *ty_name[NTYPES] = {"bool", "char", "short", "int", "long", "uchar", "ushort", "uint", "ulong", "float", "double", "ldouble"};
#define IS_FP(t) ((t) >= T_FLOAT)
#define NOINL __attribute__((noinline, noclone))

typedef struct { int t; i128 i; long double f; } MVal;   // i: mathematical value (integer types); f: exact value (fp types)
typedef struct { int und, nomodel; } MFlags;

// ---- byte-level classification of an x87 extended value ------------------------------------------------
static void ld_parts(long double x, int *sign, int *exp, uint64_t *mant) {
  unsigned char b[16]; memcpy(b, &x, 10);
  memcpy(mant, b, 8); *exp = ((b[9] & 0x7f) << 8) | b[8]; *sign = b[9] >> 7;
}
static int ld_isnan(long double x) { int s, e; uint64_t m; ld_parts(x, &s, &e, &m); return e == 0x7fff && (m << 1) != 0; }
static int ld_isinf(long double x) { int s, e; uint64_t m; ld_parts(x, &s, &e, &m); return e == 0x7fff && (m << 1) == 0; }
static int ld_iszero(long double x) { int s, e; uint64_t m; ld_parts(x, &s, &e, &m); return e == 0 && m == 0; }
static int ld_sign(long double x) { int s, e; uint64_t m; ld_parts(x, &s, &e, &m); return s; }
static long double ld_neg(long double x) { unsigned char b[16]; memset(b, 0, 16); memcpy(b, &x, 10); b[9] ^= 0x80; long double r; memcpy(&r, b, 16); return r; }
static int ld_same(long double a, long double b) { if (ld_isnan(a) && ld_isnan(b)) return 1; return memcmp(&a, &b, 10) == 0; }

// ---- soft-float helpers (noinline so that gcc cannot shortcut them into the hardware conversions) -------
static NOINL q128 q_from_ld(long double x) { return (q128)x; }
static NOINL q128 q_from_i(i128 v) { return (q128)v; }
static NOINL i128 q_to_i(q128 q) { return (i128)q; }
static NOINL float q_to_f(q128 q) { return (float)q; }
static NOINL double q_to_d(q128 q) { return (double)q; }
static NOINL long double q_to_ld(q128 q) { return (long double)q; }
static NOINL q128 q_add(q128 a, q128 b) { return a + b; }
static NOINL q128 q_sub(q128 a, q128 b) { return a - b; }
static NOINL q128 q_mul(q128 a, q128 b) { return a * b; }
static NOINL q128 q_div(q128 a, q128 b) { return a / b; }
static NOINL int q_lt(q128 a, q128 b) { return a < b; }
static NOINL int q_le(q128 a, q128 b) { return a <= b; }
static NOINL int q_eq(q128 a, q128 b) { return a == b; }

static long double fp_round(q128 q, int t) {
  if (t == T_FLOAT) return (long double)q_to_f(q);     // widening back is exact
  if (t == T_DOUBLE) return (long double)q_to_d(q);
  return q_to_ld(q);
}
// binary128 -> x87 extended where q is itself a rounded result: safe unless a second rounding could differ
static long double ld_round_checked(q128 q, MFlags *fl) {
  long double r = q_to_ld(q);
  if (q != q) return r;                                  // NaN
  if (q_eq(q_from_ld(r), q)) return r;                   // on the 64-bit grid (also +-0, +-inf): exact
  unsigned char b[16]; memcpy(b, &q, 16);
  uint64_t lo; memcpy(&lo, b, 8);
  int exp = ((b[15] & 0x7f) << 8) | b[14];
  if (exp == 0x7fff) return r;
  // x87 normal range starts at 2^-16382 = binary128 biased exponent 1; below it fewer than 64 bits are kept
  if (exp < 1) { fl->nomodel = 1; return r; }
  if ((lo & ((1ULL << 49) - 1)) == (1ULL << 48)) { fl->nomodel = 1; return r; }   // looks like an exact tie
  return r;
}

static i128 ty_min(int t) { return ty_uns[t] ? 0 : -((i128)1 << (ty_size[t] * 8 - 1)); }
static i128 ty_max(int t) { return t == T_BOOL ? 1 : ty_uns[t] ? ((i128)1 << (ty_size[t] * 8)) - 1 : ((i128)1 << (ty_size[t] * 8 - 1)) - 1; }
static int fits(i128 v, int t) { return v >= ty_min(t) && v <= ty_max(t); }
static i128 iconv(i128 v, int t) {     // 6.3.1.2, 6.3.1.3 (out-of-range signed: wraps, as the platform documents)
  if (t == T_BOOL) return v != 0;
  int bits = ty_size[t] * 8;
  i128 m = ((i128)1 << bits);
  v &= m - 1;
  if (!ty_uns[t] && (v >> (bits - 1))) v -= m;
  return v;
}
static int promote(int t) { return IS_FP(t) ? t : ty_size[t] < 4 ? T_INT : t; }
static int common(int a, int b) {
  if (IS_FP(a) || IS_FP(b)) return a > b ? (IS_FP(a) ? a : b) : (IS_FP(b) ? b : a);
  a = promote(a); b = promote(b);
  if (a == b) return a;
  if (ty_size[a] != ty_size[b]) return ty_size[a] > ty_size[b] ? a : b;
  return ty_uns[a] ? a : b;
}
static int m_truth(MVal x) { return IS_FP(x.t) ? (ld_isnan(x.f) ? 1 : !ld_iszero(x.f)) : x.i != 0; }

static MVal m_conv(MVal x, int t, MFlags *fl) {
  MVal r; r.t = t; r.i = 0; r.f = 0;
  if (!IS_FP(x.t)) {
    if (!IS_FP(t)) { r.i = iconv(x.i, t); return r; }
    r.f = fp_round(q_from_i(x.i), t); return r;
  }
  if (t == T_BOOL) { r.i = m_truth(x); return r; }       // 6.3.1.2: compares unequal to 0 -> 1; NaN != 0 is true
  if (!IS_FP(t)) {
    if (ld_isnan(x.f) || ld_isinf(x.f)) { fl->und = 1; return r; }
    q128 q = q_from_ld(x.f);
    q128 lim = q_from_i((i128)1 << 70);
    if (!q_lt(q, lim) || !q_lt(-lim, q)) { fl->und = 1; return r; }
    i128 v = q_to_i(q);                                    // truncation toward zero
    if (!fits(v, t)) { fl->und = 1; return r; }            // 6.3.1.4p1: undefined
    r.i = v; return r;
  }
  r.f = fp_round(q_from_ld(x.f), t); return r;
}

enum { K_SLOT, K_BIN, K_UN, K_CAST, K_COND, K_COMMA, K_ASSIGNOP, K_INCDEC, K_TRUTH, K_ILIT };
enum { O_ADD, O_SUB, O_MUL, O_DIV, O_LT, O_LE, O_GT, O_GE, O_EQ, O_NE, O_LAND, O_LOR,
       O_NEG, O_LNOT, O_POS, O_PREINC, O_PREDEC, O_POSTINC, O_POSTDEC, O_BNOT, O_BAND, O_BOR, O_BXOR };
typedef struct { int k, a, b; int l, r, c; } MNode;
typedef union { long i; long double f; } SlotV;

static SlotV m_slot[3];
static MVal m_final; static int m_final_set;

// Integer-only operators: they occur only as producers of integer operand *expressions* that are then converted to a
// floating type (the operators themselves are C01's).  Unsigned arithmetic wraps (6.2.5p9); a signed result that does
// not fit, and division by zero, are undefined (6.5p5, 6.5.5p5) -> not judged.
static MVal m_ibinop(int op, int ct, MVal x, MVal y, MFlags *fl) {
  MVal r; r.i = 0; r.f = 0; r.t = ct;
  i128 a = iconv(x.i, ct), b = iconv(y.i, ct), z;
  switch (op) {
  case O_LT: r.t = T_INT; r.i = a < b; return r;
  case O_LE: r.t = T_INT; r.i = a <= b; return r;
  case O_GT: r.t = T_INT; r.i = a > b; return r;
  case O_GE: r.t = T_INT; r.i = a >= b; return r;
  case O_EQ: r.t = T_INT; r.i = a == b; return r;
  case O_NE: r.t = T_INT; r.i = a != b; return r;
  case O_ADD: z = a + b; break;
  case O_SUB: z = a - b; break;
  case O_MUL:
    if (ty_uns[ct]) z = (i128)(((unsigned __int128)a * (unsigned __int128)b) & (((unsigned __int128)1 << 64) - 1));
    else z = a * b;                                        // |a|, |b| <= 2^63: no overflow in 128 bits
    break;
  case O_DIV: if (b == 0) { fl->und = 1; return r; } z = a / b; break;
  case O_BAND: z = a & b; break;
  case O_BOR: z = a | b; break;
  case O_BXOR: z = a ^ b; break;
  default: abort();
  }
  if (ty_uns[ct]) r.i = iconv(z, ct);
  else if (!fits(z, ct)) fl->und = 1;
  else r.i = z;
  return r;
}

static MVal m_binop(int op, MVal x, MVal y, MFlags *fl) {
  MVal r; r.i = 0; r.f = 0;
  int ct = common(x.t, y.t);
  if (!IS_FP(ct)) return m_ibinop(op, ct, x, y, fl);
  if (op >= O_BAND) abort();
  MVal a = m_conv(x, ct, fl), b = m_conv(y, ct, fl);
  int an = ld_isnan(a.f) || ld_isnan(b.f);
  q128 p = q_from_ld(a.f), q = q_from_ld(b.f), z;
  r.t = T_INT;
  switch (op) {
  case O_LT: r.i = an ? 0 : q_lt(p, q); return r;
  case O_LE: r.i = an ? 0 : q_le(p, q); return r;
  case O_GT: r.i = an ? 0 : q_lt(q, p); return r;
  case O_GE: r.i = an ? 0 : q_le(q, p); return r;
  case O_EQ: r.i = an ? 0 : q_eq(p, q); return r;
  case O_NE: r.i = an ? 1 : !q_eq(p, q); return r;
  case O_ADD: z = q_add(p, q); break;
  case O_SUB: z = q_sub(p, q); break;
  case O_MUL: z = q_mul(p, q); break;
  case O_DIV: z = q_div(p, q); break;                    // x/0 is IEC 60559 defined (Annex F): +-inf or NaN
  default: abort();
  }
  r.t = ct;
  r.f = ct == T_LDOUBLE ? ld_round_checked(z, fl) : fp_round(z, ct);
  return r;
}

static MVal m_eval(const MNode *tab, int i, MFlags *fl) {
  const MNode *n = &tab[i];
  MVal x, y, z, r; r.i = 0; r.f = 0;
  switch (n->k) {
  case K_SLOT:
    r.t = n->b;
    if (IS_FP(r.t)) r.f = m_slot[n->a].f;
    else r.i = iconv(ty_uns[r.t] ? (i128)(unsigned long)m_slot[n->a].i : (i128)m_slot[n->a].i, r.t);
    return r;
  case K_ILIT: r.t = T_INT; r.i = n->a; return r;          // integer constant of type int
  case K_CAST: x = m_eval(tab, n->l, fl); return m_conv(x, n->a, fl);
  case K_TRUTH: x = m_eval(tab, n->l, fl); r.t = T_INT; r.i = m_truth(x); return r;
  case K_COMMA: x = m_eval(tab, n->l, fl); return m_eval(tab, n->r, fl);
  case K_COND: {
    x = m_eval(tab, n->c, fl);
    MFlags f1 = {0, 0}, f2 = {0, 0};
    y = m_eval(tab, n->l, &f1); z = m_eval(tab, n->r, &f2);
    int ct = common(y.t, z.t);
    if (m_truth(x)) { r = m_conv(y, ct, &f1); fl->und |= f1.und; fl->nomodel |= f1.nomodel; }
    else { r = m_conv(z, ct, &f2); fl->und |= f2.und; fl->nomodel |= f2.nomodel; }
    return r;
  }
  case K_UN:
    x = m_eval(tab, n->l, fl);
    if (n->a == O_LNOT) { r.t = T_INT; r.i = !m_truth(x); return r; }
    if (!IS_FP(x.t)) {                                     // operand is promoted; see m_ibinop about scope
      r.t = promote(x.t);
      i128 v = iconv(x.i, r.t);
      if (n->a == O_POS) r.i = v;
      else if (n->a == O_BNOT) r.i = iconv(~v, r.t);
      else if (n->a == O_NEG) { if (ty_uns[r.t]) r.i = iconv(-v, r.t); else if (!fits(-v, r.t)) fl->und = 1; else r.i = -v; }
      else abort();
      return r;
    }
    if (n->a == O_BNOT) abort();
    r.t = x.t;
    if (n->a == O_POS) { r.f = x.f; return r; }
    if (n->a == O_NEG) { r.f = ld_neg(x.f); return r; }
    abort();
  case K_INCDEC: {
    x = m_eval(tab, n->l, fl);
    int pre = n->a == O_PREINC || n->a == O_PREDEC, inc = n->a == O_PREINC || n->a == O_POSTINC;
    MVal one; one.t = T_INT; one.i = 1; one.f = 0;
    y = m_binop(inc ? O_ADD : O_SUB, x, one, fl);
    MVal nv = m_conv(y, x.t, fl);
    m_final = nv; m_final_set = 1;
    return pre ? nv : x;
  }
  case K_ASSIGNOP:
    x = m_eval(tab, n->l, fl);
    y = m_eval(tab, n->r, fl);
    z = m_binop(n->a, x, y, fl);
    r = m_conv(z, x.t, fl);
    m_final = r; m_final_set = 1;
    return r;
  case K_BIN:
    x = m_eval(tab, n->l, fl);
    if (n->a == O_LAND) { r.t = T_INT; if (!m_truth(x)) { r.i = 0; return r; } y = m_eval(tab, n->r, fl); r.i = m_truth(y); return r; }
    if (n->a == O_LOR) { r.t = T_INT; if (m_truth(x)) { r.i = 1; return r; } y = m_eval(tab, n->r, fl); r.i = m_truth(y); return r; }
    y = m_eval(tab, n->r, fl);
    return m_binop(n->a, x, y, fl);
  }
  abort();
}

static int mv_same(MVal a, MVal b) { return IS_FP(a.t) ? ld_same(a.f, b.f) : a.i == b.i; }

// ---- classes used in violation signatures -----------------------------------------------------------------
enum { C_NAN = 1, C_INF = 2, C_NEG = 4, C_GE63 = 8, C_GE31 = 16, C_SMALL = 32, C_NEGZERO = 64 };
static int opnd_class(MVal x) {
  if (IS_FP(x.t)) {
    if (ld_isnan(x.f)) return C_NAN;
    if (ld_isinf(x.f)) return C_INF;
    if (ld_iszero(x.f)) return ld_sign(x.f) ? C_NEGZERO : C_SMALL;
    if (ld_sign(x.f)) return C_NEG;
    if (x.f >= 0x1p63L) return C_GE63;
    if (x.f >= 0x1p31L) return C_GE31;
    return C_SMALL;
  }
  if (x.i < 0) return C_NEG;
  if (x.i >= (i128)1 << 63) return C_GE63;
  if (x.i >= (i128)1 << 31) return C_GE31;
  return C_SMALL;
}
static const char *class_name(int c) {
  switch (c) { case C_NAN: return "nan"; case C_INF: return "inf"; case C_NEG: return "neg"; case C_GE63: return "ge2^63";
  case C_GE31: return "ge2^31"; case C_NEGZERO: return "negzero"; default: return "small"; }
}
static i128 fp_ord(long double x, int t) {   // position of a non-NaN value on the ordered list of values of type t
  i128 k;
  if (t == T_FLOAT) { float f = (float)x; uint32_t u; memcpy(&u, &f, 4); k = u & 0x7fffffff; if (u >> 31) k = -k; return k; }
  if (t == T_DOUBLE) { double d = (double)x; uint64_t u; memcpy(&u, &d, 8); k = u & 0x7fffffffffffffffULL; if (u >> 63) k = -k; return k; }
  int s, e; uint64_t m; ld_parts(x, &s, &e, &m);
  k = ((i128)e << 63) | (m & 0x7fffffffffffffffULL); if (e == 0 && (m >> 63)) k += (i128)1 << 63;
  return s ? -k : k;
}
static const char *dev_class(MVal want, MVal got) {
  static char buf[64];
  if (IS_FP(want.t)) {
    if (ld_isnan(got.f)) return "got=nan";
    if (ld_isnan(want.f)) return "want=nan";
    if (ld_same(ld_neg(want.f), got.f)) return "got=sign-flipped";
    if (ld_isinf(got.f)) return "got=inf";
    i128 d = fp_ord(got.f, want.t) - fp_ord(want.f, want.t);
    if (d == 1 || d == -1) return "got=off-by-1ulp";
    if (ld_iszero(got.f)) return "got=zero";
    return "got=other";
  }
  i128 w = want.i, g = got.i;
  if ((w == 0 || w == 1) && (g == 0 || g == 1)) { snprintf(buf, sizeof buf, "got=%d,want=%d", (int)g, (int)w); return buf; }
  if (g == -((i128)1 << 63) || g == ((i128)1 << 63)) return "got=0x8000000000000000";
  if (g == -((i128)1 << 31) || g == ((i128)1 << 31)) return "got=0x80000000";
  if (g == -((i128)1 << 15) || g == ((i128)1 << 15)) return "got=0x8000";
  if (g == (i128)(int8_t)w) return "got=low8-sext";
  if (g == (i128)(uint8_t)w) return "got=low8-zext";
  if (g == (i128)(int16_t)w) return "got=low16-sext";
  if (g == (i128)(uint16_t)w) return "got=low16-zext";
  if (g == (i128)(int32_t)w) return "got=low32-sext";
  if (g == (i128)(uint32_t)w) return "got=low32-zext";
  if (g == (i128)(int64_t)w) return "got=low64-as-signed";
  if (g == w + 1 || g == w - 1) return "got=off-by-1";
  if (g == 0) return "got=0";
  return "got=other";
}
static void mv_print(char *o, size_t n, MVal v) {
  if (IS_FP(v.t)) { if (ld_isnan(v.f)) snprintf(o, n, "nan"); else snprintf(o, n, "%La", v.f); }
  else if (v.i < 0) snprintf(o, n, "-%lu", (unsigned long)(-v.i));
  else snprintf(o, n, "%lu", (unsigned long)v.i);
}
