int x;
int f(void) { return x(1); }
