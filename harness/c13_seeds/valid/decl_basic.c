int a;
static long b = 3;
extern char c;
unsigned short d[4];
const volatile int e = 1;
int use(void) { return b + d[0]; }
