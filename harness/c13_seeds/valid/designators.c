int a[6] = {[2] = 1, [4] = 2, 3};
struct S { int a; struct { int b, c; } in; } s = {.in.c = 5, .a = 1};
int r[5] = {[1 ... 3] = 7};
