#include FOO
