int f(int n) { int a[n] = {1}; return 0; }
