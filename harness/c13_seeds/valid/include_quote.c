#include "c13_inc.h"
#include "c13_inc.h"
int f(void) { return INC_VAL + inc_var; }
