"""C17 name tables behave as dictionaries under any history.

Level 1: explicit-state BFS over all reachable states of the tree's own hashmap.c for colliding key sets
         (harness/c17_bfs.c, white-box include).  Invariant in every state: every key of the universe reads back
         the reference dictionary's value; no key occupies two buckets; no assert/unreachable fires.
Level 2: every define/redefine/undef history of length <= L over macro names whose probe sequences overlap in the
         real macro table, replayed through the shipped binary (cc1 -E) with every split of the history between
         -D/-U options and #define/#undef lines; a probe line after every in-file step.
"""
import itertools, os, re
from vlib import core

LEVEL = "model_checking"
BUDGET = {"quick": 150, "thorough": 1500}

BFS_CONFIGS = {
    "quick": [(2, 1, 9, 0), (3, 0, 9, 0), (2, 1, 10, 0), (2, 0, 5, 1), (3, 1, 3, 1)],
    "thorough": [(2, 1, 9, 0), (3, 0, 9, 0), (2, 1, 10, 0), (2, 0, 5, 1), (3, 1, 3, 1), (3, 1, 9, 0), (4, 0, 9, 0),
                 (2, 2, 9, 0), (2, 1, 6, 1), (3, 0, 6, 1)],
}
MAXSTATES = {"quick": 3000000, "thorough": 12000000}


def fnv(s):
    h = 0xcbf29ce484222325
    for c in s.encode():
        h = (h * 0x100000001b3) & 0xFFFFFFFFFFFFFFFF
        h ^= c
    return h


def build_whitebox(ctx):
    wb = ctx.mkdir("wb")
    for f in ("hashmap.c", "preprocess.c"):
        core.sh(["cp", os.path.join(ctx.tree, f), wb], check=True)
    with open(os.path.join(wb, "chibicc.h"), "w") as f:
        f.write('#pragma once\n#include "%s/chibicc.h"\n' % ctx.tree)
    rc, o, e = core.sh(["gcc", "-O2", "-w", "-o", "bfs", "-I.", os.path.join(core.VERIF, "harness/c17_bfs.c")], cwd=wb)
    if rc != 0:
        raise core.HarnessError("c17_bfs does not build against this tree's hashmap.c:\n" + e[-2000:])
    others = [os.path.join(ctx.tree, f) for f in sorted(os.listdir(ctx.tree))
              if f.endswith(".c") and f not in ("main.c", "hashmap.c", "preprocess.c")]
    rc, o, e = core.sh(["gcc", "-O1", "-w", "-o", "geom", "-I.", os.path.join(core.VERIF, "harness/c17_geom.c")] + others, cwd=wb)
    return wb, rc == 0


def _run_bfs(args):
    wb, cfg, maxstates = args
    rc, o, e = core.sh([os.path.join(wb, "bfs")] + [str(x) for x in cfg[:3]] + [str(maxstates), str(cfg[3])], timeout=1400)
    return cfg, rc, o, e


def _hist_text(names, hist, split):
    """Render a history: first `split` ops as options, the rest as directive lines with a probe after each."""
    probe = " ".join(names)
    opts = ["-D%s=%d" % (names[k], v) if op == "def" else "-U%s" % names[k] for op, k, v in hist[:split]]
    lines = []
    if split > 0:
        lines.append("P%d: %s" % (split - 1, probe))
    for i in range(split, len(hist)):
        op, k, v = hist[i]
        if op == "fill":      # a block of k filler definitions: pushes the real macro table over its growth water-mark
            lines += ["#define VPFILL%d_%d %d" % (i, j, j) for j in range(k)]
        else:
            lines.append("#define %s %d" % (names[k], v) if op == "def" else "#undef %s" % names[k])
        lines.append("P%d: %s" % (i, probe))
    return opts, "\n".join(lines) + "\n"


def _expected(names, hist, upto):
    d = {}
    for op, k, v in hist[:upto + 1]:
        if op == "fill":
            continue
        if op == "def":
            d[k] = v
        else:
            d.pop(k, None)
    return " ".join(str(d[k]) if k in d else names[k] for k in range(len(names)))


def splits(n):
    return [0, n, n // 2]


def splits_for(hist):
    if any(op == "fill" for op, k, v in hist):
        return [0]           # filler blocks are rendered as in-file lines only
    return splits(len(hist))


def _cli_batch(args):
    chibicc, wd, names, hists = args
    os.makedirs(wd, exist_ok=True)
    bad = []
    n = 0
    src = os.path.join(wd, "h.c")
    for hist in hists:
        L = len(hist)
        for split in splits_for(hist):
            opts, text = _hist_text(names, hist, split)
            with open(src, "w") as f:
                f.write(text)
            st, out, err = core.run_limited([chibicc, "-cc1", "-E"] + opts + ["-cc1-input", src, src], cwd=wd)
            n += 1
            got = dict(re.findall(r"^P(\d+): (.*)$", out, re.M))
            problem = None
            if st != 0:
                problem = "status=%s" % st
            else:
                for i in ([split - 1] if split > 0 else []) + list(range(split, L)):
                    exp = _expected(names, hist, i).split()
                    if str(i) not in got:
                        problem = "probe-missing"
                        break
                    ge = got[str(i)].split()
                    if ge != exp:
                        k = next((j for j in range(len(names)) if j >= len(ge) or ge[j] != exp[j]), 0)
                        problem = ("deleted-name-defined" if exp[k] == names[k] else
                                   "defined-name-absent" if k < len(ge) and ge[k] == names[k] else "stale-definition")
                        break
            if problem:
                bad.append((problem, hist, split, opts, text, out[-400:] + err[-400:]))
    return n, bad


def run(ctx):
    wb, have_geom = build_whitebox(ctx)

    # ---------------- level 1: BFS over real hashmap states --------------
    cfgs = BFS_CONFIGS[ctx.tier]
    res = core.pmap(_run_bfs, [(wb, c, MAXSTATES[ctx.tier]) for c in cfgs])
    states = transitions = rehashes = reuse = 0
    per_cfg = []
    for cfg, rc, o, e in res:
        m = re.search(r"STATS (.*)", o)
        if rc != 0 or not m:
            raise core.HarnessError("c17_bfs %s failed rc=%s: %s" % (cfg, rc, (o + e)[-500:]))
        st = dict((k, int(v)) for k, v in (kv.split("=") for kv in m.group(1).split()))
        per_cfg.append({"cluster": cfg[0], "near": cfg[1], "fillers": cfg[2], "filler_mode": cfg[3], **st})
        states += st["states"]; transitions += st["transitions"]; rehashes += st["rehashes"]; reuse += st["tomb_reuse"]
        if st["capped"]:
            ctx.incomplete("BFS config %s hit the state cap; covered %d states" % (cfg, st["states"]))
        keys = re.search(r"KEYS (.*)", o).group(1)
        for vm in re.finditer(r"VIOL (\S+) \|(.*)", o):
            kind, hist = vm.group(1), vm.group(2).strip()
            nops = len(hist.split())
            ctx.violation("C17|hashmap|%s" % kind,
                          "hashmap.c: %s after history [%s] (keys: %s)" % (kind, hist, keys),
                          files={"history.txt": "config=%s\nkeys=%s\nhistory=%s\n" % (cfg, keys, hist),
                                 "c17_bfs.c": open(os.path.join(core.VERIF, "harness/c17_bfs.c")).read()},
                          replay=("d=$(mktemp -d); trap 'rm -rf $d' EXIT; cp $CHIBICC_DIR/hashmap.c $d/; "
                                  "printf '#pragma once\\n#include \"%%s/chibicc.h\"\\n' $CHIBICC_DIR > $d/chibicc.h; "
                                  "gcc -O2 -w -I$d -o $d/bfs -x c - < c17_bfs.c 2>/dev/null || "
                                  "{ cp c17_bfs.c $d/h.c; gcc -O2 -w -I$d -o $d/bfs $d/h.c || exit 0; }; "
                                  "$d/bfs %d %d %d %d %d | grep -q '^VIOL %s ' && exit 1; exit 0"
                                  % (cfg[0], cfg[1], cfg[2], MAXSTATES[ctx.tier], cfg[3], kind)))
        for sm in re.finditer(r"SAMPLE (.*)", o):
            ctx.sample({"level": 1, "config": list(cfg), "history_to_a_reached_state": sm.group(1).strip()}, limit=3)
    if rehashes == 0 or reuse == 0:
        raise core.HarnessError("vacuous BFS: rehashes=%d tombstone-reuse=%d" % (rehashes, reuse))
    ctx.cover(states=states, transitions=transitions, bfs_rehash_transitions=rehashes,
              bfs_tombstone_reuse_transitions=reuse, bfs_configs=per_cfg)

    # ---------------- level 2: histories through the real binary ----------
    names = None
    geom = "whitebox"
    if have_geom:
        rc, o, e = core.sh([os.path.join(wb, "geom"), "3"], timeout=60)
        if rc == 0:
            names = re.findall(r"NAME (\S+)", o) + re.findall(r"NEAR (\S+)", o)
            ctx.cover(macro_table=re.search(r"CAP.*", o).group(0))
    if not names or len(names) != 4:
        geom = "fallback-fnv-guess"
        names, cap, cnt = [], 128, {}
        for i in range(100000):
            n = "VPM%d" % i
            cnt.setdefault(fnv(n) % cap, []).append(n)
            if len(cnt[fnv(n) % cap]) == 3:
                names = cnt[fnv(n) % cap]
                h = fnv(n) % cap
                break
        names.append(next("VPN%d" % i for i in range(100000) if fnv("VPN%d" % i) % cap == (h + 1) % cap))
    ctx.cover(macro_geometry=geom, colliding_macro_names=names)
    # alphabet A: 3 colliding names (two values for the first two); alphabet B adds the neighbouring name
    opsA = [("def", 0, 1), ("def", 0, 2), ("undef", 0, 0), ("def", 1, 1), ("def", 1, 2), ("undef", 1, 0),
            ("def", 2, 1), ("undef", 2, 0)]
    opsB = opsA + [("def", 2, 2), ("def", 3, 1), ("undef", 3, 0)]
    plan = [(opsA, 5), (opsB, 3)] if ctx.tier == "quick" else [(opsA, 6), (opsB, 5)]
    hists = []
    for ops, L in plan:
        hists += list(itertools.product(ops, repeat=L))
    # growth of the real macro table in the middle of a history: a filler block at every position of every short history
    nfill = 60
    Lg = 3 if ctx.tier == "quick" else 4
    grow = []
    for h0 in itertools.product(opsA, repeat=Lg):
        for pos in range(Lg + 1):
            grow.append(tuple(h0[:pos]) + (("fill", nfill, 0),) + tuple(h0[pos:]))
    ngrow = len(grow)
    L = plan[0][1]
    hists += grow
    batches = core.chunks(hists, max(1, len(hists) // (core.NPROC * 8) + 1))
    args = [(ctx.chibicc, os.path.join(ctx.work, "cli%d" % i), names, b) for i, b in enumerate(batches)]
    res = core.pmap(_cli_batch, args)
    nruns = sum(r[0] for r in res)
    for n, bad in res:
        for problem, hist, split, opts, text, tail in bad:
            hs = " ".join("fill(%d)" % k if op == "fill" else "%s(%s%s)" % (op, names[k], ",%d" % v if op == "def" else "") for op, k, v in hist)
            ctx.violation("C17|macro-cli|%s" % problem,
                          "macro table history [%s] split=%d -> %s" % (hs, split, problem),
                          files={"h.c": text, "opts.txt": " ".join(opts) + "\n",
                                 "expected.txt": "\n".join("P%d: %s" % (i, _expected(names, hist, i)) for i in range(len(hist))) + "\n"},
                          replay=("$CHIBICC -cc1 -E $(cat opts.txt) -cc1-input h.c h.c > got.txt 2>&1 || exit 1\n"
                                  "grep '^P' got.txt | while read l; do grep -qxF \"$l\" expected.txt || exit 1; done || exit 1\nexit 0"))
    ctx.cover(traces_validated_against_impl=nruns, cli_histories=len(hists), cli_histories_with_table_growth=ngrow, cli_history_plan=[[len(o), l] for o, l in plan])
    ctx.sample({"level": 2, "names": names, "history": [list(x) for x in hists[len(hists) // 3]],
                "rendering": _hist_text(names, hists[len(hists) // 3], L // 2)}, limit=6)
    ctx.assume("hash geometry (capacity, hash function) is read from the tree's own hashmap.c/preprocess.c; "
               "if that white-box build fails the CLI level falls back to an FNV guess (macro_geometry field)")
    ctx.assume("key universe is bounded (<= 3 colliding + 2 neighbouring + 10 filler keys); larger universes are not explored")
