int x;
int f(int x) {
  { int x = 2; x++; }
  for (int x = 0; x < 1; x++) ;
  struct x { int x; } y = {x};
  return y.x;
}
