struct S { int a; } s = {.a[0] = 1};
