struct M { float a; int b; double c; };
struct M f(int i, struct M m, double d, struct M n) { m.c += n.a + i + d; return m; }
