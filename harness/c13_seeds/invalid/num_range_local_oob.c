int f(void) { int b[4] = {[1 ... 4] = 2}; return b[1]; }
