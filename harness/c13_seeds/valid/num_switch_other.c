enum E { P = 1, Q = 5 };
struct W { unsigned u : 3; long w : 40; } w;
int f(_Bool a, enum E b, char c, long long d) {
  switch (a) { case 1: return 1; }
  switch (b) { case 1: return 2; case Q: return 3; }
  switch (c) { case 1: return 4; }
  switch (d) { case 1: return 5; }
  switch (w.u) { case 1: return 6; }
  switch (w.w) { case 1: return 7; }
  return 0;
}
