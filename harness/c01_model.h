// Reference model of C11 integer expression semantics on LP64 (x86-64), evaluated on __int128.
// Implementation-defined points are fixed as the platform documents them (gcc manual 4.5; shared by every
// x86-64 psABI compiler): conversion to a signed type that cannot hold the value wraps modulo 2^N;
// >> of a negative signed value is arithmetic.  Everything C11 leaves undefined sets *undef.
#include <stdint.h>
#include <string.h>
#include <stdio.h>
#include <stdlib.h>
typedef __int128 i128;
enum { T_BOOL, T_CHAR, T_SHORT, T_INT, T_LONG, T_UCHAR, T_USHORT, T_UINT, T_ULONG, NTYPES };
static const int ty_size[NTYPES] = {1, 1, 2, 4, 8, 1, 2, 4, 8};
static const int ty_uns[NTYPES] = {1, 0, 0, 0, 0, 1, 1, 1, 1};
static const char *ty_name[NTYPES] = {"bool", "char", "short", "int", "long", "uchar", "ushort", "uint", "ulong"};

static i128 ty_min(int t) { return ty_uns[t] ? 0 : -((i128)1 << (ty_size[t] * 8 - 1)); }
static i128 ty_max(int t) { return t == T_BOOL ? 1 : ty_uns[t] ? ((i128)1 << (ty_size[t] * 8)) - 1 : ((i128)1 << (ty_size[t] * 8 - 1)) - 1; }
static int fits(i128 v, int t) { return v >= ty_min(t) && v <= ty_max(t); }
// conversion (6.3.1.2, 6.3.1.3)
static i128 conv(i128 v, int t) {
  if (t == T_BOOL) return v != 0;
  int bits = ty_size[t] * 8;
  i128 m = ((i128)1 << bits);
  v &= m - 1;
  if (!ty_uns[t] && (v >> (bits - 1))) v -= m;
  return v;
}
static int promote(int t) { return ty_size[t] < 4 ? T_INT : t; }
static int common(int a, int b) {
  a = promote(a); b = promote(b);
  if (a == b) return a;
  if (ty_size[a] != ty_size[b]) return ty_size[a] > ty_size[b] ? a : b;  // larger rank can hold or is unsigned
  return ty_uns[a] ? a : b;
}

enum { K_SLOT, K_CONST, K_BIN, K_UN, K_CAST, K_COND, K_COMMA, K_ASSIGNOP, K_INCDEC, K_CONVCTX, K_TRUTH };
enum { O_ADD, O_SUB, O_MUL, O_DIV, O_MOD, O_AND, O_OR, O_XOR, O_SHL, O_SHR, O_LT, O_LE, O_GT, O_GE, O_EQ, O_NE, O_LAND, O_LOR,
       O_NEG, O_NOT, O_LNOT, O_POS, O_PREINC, O_PREDEC, O_POSTINC, O_POSTDEC };
typedef struct { int k; long a; int b; int l, r, c; } MNode;   // a: op / type / slot ; b: type for slot/const ; children = indices
typedef struct { i128 v; int t; } MVal;

static long m_slot[3];         // raw operand values (already representable in the slot type)
static i128 m_final; static int m_final_set;   // final value of the assigned object (assign-op / inc-dec)

static MVal m_binop(int op, MVal x, MVal y, int *undef) {
  MVal r;
  if (op == O_SHL || op == O_SHR) {
    r.t = promote(x.t);
    i128 a = conv(x.v, r.t), c = conv(y.v, promote(y.t));
    int w = ty_size[r.t] * 8;
    if (c < 0 || c >= w) { *undef = 1; r.v = 0; }
    else if (op == O_SHL) {
      if (ty_uns[r.t]) r.v = conv(a << c, r.t);
      else { if (a < 0) *undef = 1; r.v = a << c; if (!fits(r.v, r.t)) { *undef = 1; r.v = conv(r.v, r.t); } }
    } else r.v = a >> c;   // arithmetic for negative a (implementation-defined; platform: arithmetic)
    return r;
  }
  int ct = common(x.t, y.t);
  i128 a = conv(x.v, ct), b = conv(y.v, ct);
  r.t = ct;
  switch (op) {
  case O_ADD: r.v = a + b; break;
  case O_SUB: r.v = a - b; break;
  case O_MUL: r.v = a * b; break;
  case O_DIV: if (b == 0) { *undef = 1; r.v = 0; } else r.v = a / b; break;
  case O_MOD: if (b == 0) { *undef = 1; r.v = 0; } else { r.v = a % b; if (!fits(a / b, ct)) *undef = 1; } break;
  case O_AND: r.v = a & b; break;
  case O_OR: r.v = a | b; break;
  case O_XOR: r.v = a ^ b; break;
  case O_LT: r.t = T_INT; r.v = a < b; return r;
  case O_LE: r.t = T_INT; r.v = a <= b; return r;
  case O_GT: r.t = T_INT; r.v = a > b; return r;
  case O_GE: r.t = T_INT; r.v = a >= b; return r;
  case O_EQ: r.t = T_INT; r.v = a == b; return r;
  case O_NE: r.t = T_INT; r.v = a != b; return r;
  default: abort();
  }
  if (ty_uns[ct]) r.v = conv(r.v, ct);
  else if (!fits(r.v, ct)) { *undef = 1; r.v = conv(r.v, ct); }
  return r;
}

static MVal m_eval(const MNode *tab, int i, int *undef) {
  const MNode *n = &tab[i];
  MVal x, y, z, r;
  switch (n->k) {
  case K_SLOT: r.t = n->b; r.v = ty_uns[n->b] ? (i128)(unsigned long)m_slot[n->a] : (i128)m_slot[n->a]; r.v = conv(r.v, n->b); return r;
  case K_CONST: r.t = n->b; r.v = conv(n->a, n->b); return r;   // a: the value's 64-bit pattern
  case K_CAST:
  case K_CONVCTX: x = m_eval(tab, n->l, undef); r.t = n->a; r.v = conv(x.v, n->a); return r;
  case K_TRUTH: x = m_eval(tab, n->l, undef); r.t = T_INT; r.v = x.v != 0; return r;
  case K_COMMA: x = m_eval(tab, n->l, undef); return m_eval(tab, n->r, undef);
  case K_COND: {
    x = m_eval(tab, n->c, undef);
    int u1 = 0, u2 = 0; y = m_eval(tab, n->l, &u1); z = m_eval(tab, n->r, &u2);
    r.t = common(y.t, z.t);   // the type does not depend on the arm taken
    if (x.v) { *undef |= u1; r.v = conv(y.v, r.t); } else { *undef |= u2; r.v = conv(z.v, r.t); }
    return r;
  }
  case K_UN:
    x = m_eval(tab, n->l, undef);
    switch (n->a) {
    case O_LNOT: r.t = T_INT; r.v = !x.v; return r;
    case O_POS: r.t = promote(x.t); r.v = x.v; return r;
    case O_NOT: r.t = promote(x.t); r.v = conv(~conv(x.v, r.t), r.t); return r;
    case O_NEG: r.t = promote(x.t); r.v = -x.v; if (ty_uns[r.t]) r.v = conv(r.v, r.t); else if (!fits(r.v, r.t)) { *undef = 1; r.v = conv(r.v, r.t); } return r;
    }
    abort();
  case K_INCDEC: {   // operand is a slot leaf
    x = m_eval(tab, n->l, undef);
    int pre = n->a == O_PREINC || n->a == O_PREDEC, inc = n->a == O_PREINC || n->a == O_POSTINC;
    MVal one = {1, T_INT};
    y = m_binop(inc ? O_ADD : O_SUB, x, one, undef);
    i128 nv = conv(y.v, x.t);
    m_final = nv; m_final_set = 1;
    r.t = x.t; r.v = pre ? nv : x.v; return r;
  }
  case K_ASSIGNOP:   // slot op= rhs ; value = new value of the slot, in the slot's type
    x = m_eval(tab, n->l, undef);
    y = m_eval(tab, n->r, undef);
    z = m_binop(n->a, x, y, undef);
    r.t = x.t; r.v = conv(z.v, x.t);
    m_final = r.v; m_final_set = 1;
    return r;
  case K_BIN:
    x = m_eval(tab, n->l, undef);
    if (n->a == O_LAND) { r.t = T_INT; if (!x.v) { r.v = 0; return r; } y = m_eval(tab, n->r, undef); r.v = y.v != 0; return r; }
    if (n->a == O_LOR) { r.t = T_INT; if (x.v) { r.v = 1; return r; } y = m_eval(tab, n->r, undef); r.v = y.v != 0; return r; }
    y = m_eval(tab, n->r, undef);
    return m_binop(n->a, x, y, undef);
  }
  abort();
}
