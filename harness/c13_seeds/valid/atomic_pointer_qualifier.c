int v[2];
int *_Atomic p = v;
int *_Atomic *volatile const _Atomic q = &p;
int f(int *_Atomic a, int x) { p += x; a++; return *p + **q + *a; }
