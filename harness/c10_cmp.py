#!/usr/bin/env python3
"""usage: c10_cmp.py got.txt expected.txt  -> exit 0 iff the token stream of got.txt (line markers dropped, re-lexed)
equals the white-space separated tokens of expected.txt (`#pragma` lines are dropped as well: gcc passes them through,
chibicc does not; they are not text selected by the property).  An expected token written `[opt]T` may be present or
absent (part D2: a file whose second inclusion under #pragma once is implementation-defined).
Used by the C10 replay scripts."""
import re
import sys

TOK = re.compile(r"[A-Za-z_][A-Za-z0-9_]*|\d+|\S")
LINEMARK = re.compile(r'^[ \t]*#[ \t]*(line[ \t]+)?\d+([ \t]+"[^"\n]*"[ \t\d]*)?[ \t]*$', re.M)
PRAGMALINE = re.compile(r'^[ \t]*#[ \t]*pragma\b[^\n]*$', re.M)


def lex(s):
    return TOK.findall(LINEMARK.sub("", PRAGMALINE.sub("", s)))


if __name__ == "__main__":
    got = lex(open(sys.argv[1], errors="replace").read())
    exp = open(sys.argv[2]).read().split()
    OPT = "[opt]"
    # reach[j] = the first i tokens of exp can produce the first j tokens of got
    reach = {0}
    for e in exp:
        if e.startswith(OPT):
            reach = reach | {j + 1 for j in reach if j < len(got) and got[j] == e[len(OPT):]}
        else:
            reach = {j + 1 for j in reach if j < len(got) and got[j] == e}
    sys.exit(0 if len(got) in reach else 1)
