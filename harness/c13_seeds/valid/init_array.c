int a[4] = {1, 2};
char s[] = "ab";
int m[2][2] = {{1}, {2, 3}};
int f(void) { int l[3] = {0}; return l[1] + a[0] + s[0] + m[1][1]; }
