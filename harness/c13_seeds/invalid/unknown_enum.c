enum E e;
