"""C13 every input is answered: exit 0 with assembly that `as` accepts, or exit != 0 with a located diagnostic.

Enumerated (exhaustively, no sampling): deviation-bounded neighbourhoods of a seed corpus
(harness/c13_seeds/valid: one small valid program per construct family; harness/c13_seeds/invalid: one minimal
invalid program per diagnostic site).
  deviation 0   every seed x every option set of OPTION_SETS; every option spelling of OPTION_PROBES on a trivial unit
  deviation 1   at EVERY token position of every seed: delete, duplicate, swap-with-next, replace-by and
                insert-before each token of the tier's token alphabet (+ insert at end); quick: QUICK_ALPHABET
                (12 tokens), thorough: FULL_ALPHABET (160: all punctuators, keywords/builtins, identifiers of each
                kind, well- and ill-formed literals, directive starts, comment/splice starts)
  byte level    every byte of every seed replaced by each of BYTE_ALPHABET[tier], truncation at every byte offset
  deviation 2   (thorough) every deviation-1 edit (DEV2_ALPHABET) of every deviation-1 edit, for seeds of at most
                DEV2_MAXTOK tokens
Variants are de-duplicated by content.  Each one is run as `chibicc -cc1 -cc1-input v.c -cc1-output v.s v.c` by
harness/c13_run.c under RLIMIT_CPU 5 s / RLIMIT_AS 2 GB / 60 s wall, observed from outside with ptrace.

Verdicts (nothing is concluded from gcc accepting or rejecting an edited program):
  (i)   no death by signal, no `internal error`, no hang (a timeout is re-run alone with 10x limits; only a run
        that really burns 50 s of CPU is a hang - a wall-clock timeout on a loaded machine is never a verdict)
  (ii)  exit 0  => the output exists, `as` accepts it (assembled once per distinct output text) and no operand is
        the text `(null)` (a NULL string printed by the code generator; `as` reads it as a symbol named null)
  (iii) exit !=0 => stderr is non-empty and its first line is `<file>:<line>: ` naming an existing file and a line
        1..(number of lines + 1) of it (the line after the last one is where chibicc places end-of-file), or a
        `<pseudo-file>`/command-line message when options are involved
  (iv)  every valid seed is accepted under every option set
Signature: C13|<class>|<site>; for signals the site is the innermost chibicc function on the stack at the moment of
the signal (frame-pointer walk by the ptrace observer, named through `nm`), so that all inputs reaching one faulty
statement share one signature.
"""
import bisect, hashlib, os, re, shutil, subprocess, sys

if __name__ == "__main__":
    sys.path.insert(0, os.path.dirname(os.path.dirname(os.path.abspath(__file__))))
from vlib import core

LEVEL = "exploration"
BUDGET = {"quick": 900, "thorough": 3600}

SEEDS = os.path.join(core.VERIF, "harness", "c13_seeds")
RUNNER_SRC = os.path.join(core.VERIF, "harness", "c13_run.c")
CPU_S, WALL_S, MEM_MB = 5, 60, 2048      # first pass; the wall limit only guards against a blocked process
CONFIRM_CPU_S, CONFIRM_WALL_S = 50, 400   # a hang is declared only when 10x the CPU limit is really consumed

# ---------------------------------------------------------------------------------------------------------
# alphabets (explicit bounds of the enumeration)

PUNCT = ["(", ")", "[", "]", "{", "}", ";", ",", ".", "->", "...", "+", "-", "*", "/", "%", "&", "|", "^", "~", "!",
         "=", "<", ">", "?", ":", "++", "--", "<<", ">>", "==", "!=", "<=", ">=", "&&", "||", "+=", "-=", "*=", "/=",
         "%=", "&=", "|=", "^=", "<<=", ">>=", "#", "##"]
KEYWORDS = ["int", "char", "void", "long", "short", "unsigned", "signed", "float", "double", "_Bool", "struct", "union",
            "enum", "typedef", "static", "extern", "inline", "const", "volatile", "_Atomic", "_Alignas", "_Alignof",
            "sizeof", "typeof", "if", "else", "for", "while", "do", "switch", "case", "default", "break", "continue",
            "goto", "return", "_Generic", "__attribute__", "_Noreturn", "_Thread_local", "register", "restrict",
            "__builtin_types_compatible_p", "__builtin_reg_class", "__builtin_compare_and_swap",
            "__builtin_atomic_exchange", "__func__", "__VA_ARGS__", "__VA_OPT__", "defined", "__has_include",
            "__LINE__", "__COUNTER__"]
IDENTS = ["a", "f", "x", "s", "p", "n", "T", "zz"]
LITERALS = ["0", "1", "2", "1.5", "1e", "0x", "08", "1.0f", "0.0", "10000000000000000000000", "9223372036854775808",
            "4294967296", "'a'", "''", "'\\", "\"s\"", "\"", "L\"w\"", "u8\"z\"", "-1"]
DIRECTIVES = ["\n#define X", "\n#define F(", "\n#undef f\n", "\n#include", "\n#include_next", "\n#if", "\n#ifdef",
              "\n#ifndef X\n", "\n#elif", "\n#else\n", "\n#endif\n", "\n#line", "\n#pragma once\n", "\n#error\n", "\n#\n",
              "\n#if 0\n"]
OTHER = ["\\\n", "/*", "//", "@", "`", "$", "\\", "(struct", "int(", "){", "[]", "()", "{}", "= {", ",)"]
FULL_ALPHABET = PUNCT + KEYWORDS + IDENTS + LITERALS + DIRECTIVES + OTHER
QUICK_ALPHABET = ["(", ")", "{", ";", ",", "*", "=", ":", "#", "0", "a", "int"]
DEV2_ALPHABET = ["(", "{", ";", "0", "int", "*"]
DEV2_MAXTOK = {"quick": 0, "thorough": 12}
BYTE_ALPHABET = {"quick": [0x00, ord("\\"), ord('"')],
                 "thorough": [0x00, 0x80, 0xff, ord("\\"), ord('"'), ord("'"), ord("\n")]}

# option sets applied to every seed (deviation 0)
OPTION_SETS = [[], ["-E"], ["-fpic"], ["-fcommon"], ["-fno-common"], ["-DX=1", "-DF(x)=x"], ["-Ua", "-I."],
               ["-include", "c13_inc.h"], ["-M"], ["-MD", "-MF", "v.d"], ["-O2", "-g", "-std=c11", "-w"]]
# option spellings probed on a trivial translation unit; only (i) and "non-empty stderr when exit != 0" are judged
OPTION_PROBES = [["-x", "bogus"], ["-x", "c"], ["-x", "assembler"], ["-x", "none"], ["-xc"],
                 ["-Zfoo"], ["--help"], ["-###"], ["-"], ["-D", ""], ["-D="], ["-D=1"], ["-D1"], ["-DX(=1"], ["-DX("],
                 ["-DX=\""], ["-DX='"], ["-DX=/*"], ["-DX=\\"], ["-D#"], ["-DX=#"], ["-U", ""], ["-U1"], ["-UX Y"],
                 ["-include", "c13_nonexistent.h"], ["-include", "."], ["-include", "v.c"], ["-I", "x"], ["-I."],
                 ["-o", "x"], ["-ox"], ["-MF", "x"], ["-MT", "x"], ["-L", "x"], ["-Lx"], ["-Xlinker", "x"],
                 ["-idirafter", "."], ["-MD"], ["-MMD"], ["-M", "-MP"], ["-M", "-MT", "t"], ["-M", "-MQ", "a b$"],
                 ["-MD", "-MF", "/nonexistent/dir/x.d"], ["-fpic"], ["-fPIC"], ["-static"], ["-shared"], ["-s"],
                 ["-l", "m"], ["-lm"], ["-Wl,x"], ["-hashmap-test"], ["-S"], ["-c"], ["-E", "-o", "v.i"],
                 ["-cc1-output", "/nonexistent/dir/v.s"], ["-cc1-input", "nonexistent.c"]]
# spellings that lack their argument are given to the driver (the cc1 interface always carries -cc1-input/-output
# after the user's options, which a dangling option would swallow); judged: the driver itself does not die from a
# signal, and exit != 0 comes with a message
DRIVER_PROBES = [["-D"], ["-U"], ["-I"], ["-include"], ["-x"], ["-o"], ["-MF"], ["-MT"], ["-MQ"], ["-idirafter"],
                 ["-Xlinker"], ["-L"], ["-l"], ["-cc1-input"], ["-cc1-output"], ["-z"], ["--"], ["-"], []]
PROBE_UNIT = b"int X;\nint main(void) { return X; }\n"

SIGNAMES = {4: "SIGILL", 6: "SIGABRT", 7: "SIGBUS", 8: "SIGFPE", 9: "SIGKILL", 11: "SIGSEGV", 24: "SIGXCPU",
            25: "SIGXFSZ", 31: "SIGSYS", 5: "SIGTRAP"}

# ---------------------------------------------------------------------------------------------------------
# lexing seeds into preprocessing tokens (only used to place edits; no verdict depends on it)

_TOK = re.compile(rb"""
    (?P<ws>(?:[ \t\r\f\v\n]+|/\*.*?\*/|//[^\n]*|\\\n)+)
  | (?P<str>(?:u8|u|U|L)?"(?:\\.|[^"\\\n])*"|(?:u|U|L)?'(?:\\.|[^'\\\n])*')
  | (?P<num>\.?[0-9](?:[eEpP][+-]|[0-9a-zA-Z_.])*)
  | (?P<id>[A-Za-z_][A-Za-z0-9_]*)
  | (?P<punct><<=|>>=|\.\.\.|->|\+\+|--|<<|>>|<=|>=|==|!=|&&|\|\||[-+*/%&|^]=|\#\#|[\]\[(){}.,;:?~!=<>+*/%&|^\#-])
  | (?P<other>.)
""", re.S | re.X)


def lex(src):
    """-> (toks, ws): ws[i] is the white space before toks[i]; ws[len(toks)] trails."""
    toks, ws, pend = [], [], b""
    for m in _TOK.finditer(src):
        if m.lastgroup == "ws":
            pend += m.group()
        else:
            toks.append(m.group())
            ws.append(pend)
            pend = b""
    ws.append(pend)
    return toks, ws


def join(toks, ws):
    out = []
    for i, t in enumerate(toks):
        out.append(ws[i])
        out.append(t)
    out.append(ws[len(toks)])
    return b"".join(out)


def _sp(tok):
    """inserted tokens are blank-separated; directive starts carry their own newline"""
    return tok if tok.startswith(b"\n") else b" " + tok + b" "


def edits1(toks, ws, alpha):
    """All deviation-1 edits of a token sequence: yields (edit id, toks', ws')."""
    n = len(toks)
    for i in range(n):
        yield "del%d" % i, toks[:i] + toks[i + 1:], ws[:i] + [ws[i] + ws[i + 1]] + ws[i + 2:]
        yield "dup%d" % i, toks[:i + 1] + toks[i:], ws[:i + 1] + [b" "] + ws[i + 1:]
        if i + 1 < n:
            yield "swap%d" % i, toks[:i] + [toks[i + 1], toks[i]] + toks[i + 2:], ws
        for k, a in alpha:
            if a != toks[i]:
                yield "rep%d.%d" % (i, k), toks[:i] + [_sp(a)] + toks[i + 1:], ws
    for i in range(n + 1):
        for k, a in alpha:
            yield "ins%d.%d" % (i, k), toks[:i] + [_sp(a)] + toks[i:], ws[:i] + [b""] + ws[i:]


def gen_variants(src, spec):
    """spec -> iterator of (variant id, bytes).  Deterministic order."""
    kind = spec[0]
    if kind == "seed":
        yield "seed", src
    elif kind == "tok1":
        toks, ws = lex(src)
        alpha = [(k, FULL_ALPHABET[k].encode()) for k in spec[1]]
        for eid, t, w in edits1(toks, ws, alpha):
            yield eid, join(t, w)
    elif kind == "tok2":
        toks, ws = lex(src)
        alpha = [(FULL_ALPHABET.index(a), a.encode()) for a in DEV2_ALPHABET]
        first = spec[1]            # index of the first edit in the deviation-1 enumeration, modulo spec[2]
        for j, (e1, t1, w1) in enumerate(edits1(toks, ws, alpha)):
            if j % spec[2] != first:
                continue
            for e2, t2, w2 in edits1(t1, w1, alpha):
                yield e1 + "+" + e2, join(t2, w2)
    elif kind == "byte":
        for i in range(len(src)):
            for b in BYTE_ALPHABET[spec[1]]:
                if src[i] != b:
                    yield "b%d.%02x" % (i, b), src[:i] + bytes([b]) + src[i + 1:]
        for i in range(len(src)):
            yield "trunc%d" % i, src[:i]
    else:
        raise core.HarnessError("bad spec %r" % (spec,))


def edit_class(vid):
    return re.sub(r"[0-9.]+", "", vid.split("+")[0]) + ("+2" if "+" in vid else "")


# ---------------------------------------------------------------------------------------------------------
# running and judging

def build_runner(workdir):
    exe = os.path.join(workdir, "c13_run")
    rc, o, e = core.sh(["gcc", "-O2", "-o", exe, RUNNER_SRC])
    if rc != 0:
        raise core.HarnessError("c13_run.c does not build:\n" + e[-2000:])
    return exe


def run_batch(runner, chibicc, wd, cases, asmdir="-", cpu=CPU_S, wall=WALL_S, mem=MEM_MB, trace=1):
    """cases: [(id, bytes, [opts])] -> [(id, status, err bytes, asmhash, asmnew, trace text)]"""
    parts = []
    for cid, data, opts in cases:
        parts.append(("R %s %d %d\n" % (cid, len(data), len(opts))).encode())
        for o in opts:
            parts.append(o.encode() + b"\n")
        parts.append(data)
        parts.append(b"\n")
    p = subprocess.run([runner, chibicc, str(trace), str(cpu), str(wall), str(mem), asmdir], input=b"".join(parts),
                       stdout=subprocess.PIPE, stderr=subprocess.PIPE, cwd=wd)
    if p.returncode != 0:
        raise core.HarnessError("c13_run failed rc=%s: %s" % (p.returncode, p.stderr[-500:]))
    out, pos, res = p.stdout, 0, []
    while pos < len(out):
        nl = out.index(b"\n", pos)
        f = out[pos:nl].split(b" ")
        if f[0] != b"S" or len(f) != 7:
            raise core.HarnessError("c13_run protocol error: %r" % out[pos:nl + 1])
        errlen, trlen = int(f[3]), int(f[6])
        pos = nl + 1
        err = out[pos:pos + errlen]
        pos += errlen
        tr = out[pos:pos + trlen].decode()
        pos += trlen
        res.append((f[1].decode(), f[2].decode(), err, f[4].decode(), f[5] == b"1", tr))
    if len(res) != len(cases):
        raise core.HarnessError("c13_run returned %d of %d results" % (len(res), len(cases)))
    return res


_LINECOUNT = {}


def file_lines(path):
    """number of lines of a file as chibicc sees it, or None if it does not exist"""
    if path not in _LINECOUNT:
        try:
            with open(path, "rb") as f:
                _LINECOUNT[path] = count_lines(f.read())
        except OSError:
            _LINECOUNT[path] = None
    return _LINECOUNT[path]


def count_lines(data):
    data = data.split(b"\0")[0] if b"\0" in data else data
    n = data.count(b"\n")
    if data and not data.endswith(b"\n"):
        n += 1
    return n


_LOC = re.compile(rb"^([^\n:]+):(\d+): ")
_LINEDIR = re.compile(rb"#[ \t]*(?:line\b|\d)")


def judge_diag(err, data, wd, loose):
    """exit != 0: returns None if stderr starts with a located diagnostic, else (class, detail)."""
    if not err.strip():
        return ("silent-failure", "")
    first = err.split(b"\n", 1)[0]
    m = _LOC.match(err)
    if not m:
        if loose or first.startswith(b"<"):
            return None
        if _LINEDIR.search(data) and re.match(rb"^[^\n:]+:-\d+: ", err):
            return None                    # presumed line after #line (C18 judges its value, not C13)
        return ("diag-no-location", norm_msg(first))
    name, line = m.group(1).decode("utf-8", "replace"), int(m.group(2))
    if name.startswith("<"):               # <built-in>, <command line>
        return None
    if _LINEDIR.search(data):              # after #line / `# N` the reported line is the presumed one
        return None
    if name == "v.c":
        nlines = count_lines(data)
    else:
        nlines = file_lines(name if os.path.isabs(name) else os.path.join(wd, name))
        if nlines is None:
            return ("diag-nonexistent-file", caret_msg(err))
    if line < 1:
        return ("diag-line-out-of-range", "line%d%s" % (line, "-input-has-NUL" if b"\0" in data else ""))
    if line > nlines + 1:
        return ("diag-line-out-of-range", "beyond-eof-" + caret_msg(err))
    return None


def caret_msg(err):
    m = re.search(rb"^ *\^ (.*)$", err, re.M)
    return norm_msg(m.group(1)) if m else "?"


def norm_msg(b):
    s = b.decode("utf-8", "replace")[:80]
    s = re.sub(r"'[^']*'|`[^']*'|\"[^\"]*\"", "_", s)
    s = re.sub(r"\d+", "N", s)
    s = re.sub(r"[^A-Za-z0-9_#<>.,:+-]+", "-", s).strip("-")
    return s or "?"


def judge(status, err, asmhash, data, opts, wd, loose=False):
    """-> (outcome, anomaly or None); outcome in accepted/rejected/crash/timeout"""
    if status == "T" or status in ("S24", "S9"):
        return "timeout", ("timeout", status)
    if status[0] == "S":
        return "crash", ("signal", status)
    if b"internal error" in err:
        m = re.search(rb"internal error at ([\w.]+):(\d+)", err)
        return "rejected", ("internal-error", (m.group(1).decode(), int(m.group(2))) if m else ("?", 0))
    if b"Assertion" in err and b"failed" in err:
        return "rejected", ("assertion", norm_msg(err.split(b"\n", 1)[0]))
    if status == "E0":
        if asmhash == "0" * 16 and not any(o in ("-E", "-M", "--help", "-hashmap-test") for o in opts):
            return "accepted", ("exit0-no-output", "")
        return "accepted", None
    return "rejected", judge_diag(err, data, wd, loose or bool(opts))


def norm_as_msg(aserr):
    for line in aserr.splitlines():
        m = re.search(r"(Error|Fatal error): (.*)", line)
        if m:
            return norm_msg(m.group(2).encode())
    return "no-message"


def assemble(path):
    rc, o, e = core.sh(["as", "-o", "/dev/null", path])
    return rc, e


def null_operand(path):
    """`(null)` outside string data is printf("%s", NULL) in the code generator: the output is not a translation
    of the input even where `as` happens to read it as a symbol named null.  -> mnemonic or None"""
    with open(path, "rb") as f:
        for line in f:
            if b"(null)" in line:
                w = line.split()
                if w and w[0] not in (b".ascii", b".string", b".asciz"):
                    return w[0].decode("ascii", "replace")
    return None


def _work(item):
    """One work item = the neighbourhood `spec` of one seed.  Returns counts and anomalies."""
    chibicc, runner, wd, name, valid, src, spec = item
    asmdir = os.path.join(wd, "asm")      # novelty of an output text is judged per item: deterministic counts
    os.makedirs(asmdir, exist_ok=True)
    for f in os.listdir(os.path.join(SEEDS, "aux")):
        shutil.copy(os.path.join(SEEDS, "aux", f), wd)
    seen, cases, hashes = set(), [], []
    ngen = 0
    if spec[0] == "seed":
        cases = [("o%d" % i, src, o) for i, o in enumerate(OPTION_SETS)]
        ngen = len(cases)
        hashes.append(int.from_bytes(hashlib.blake2b(src, digest_size=8).digest(), "big"))
    elif spec[0] == "probe":
        cases = [("p%d" % i, src, o) for i, o in enumerate(OPTION_PROBES)]
        ngen = len(cases)
    else:
        for vid, data in gen_variants(src, spec):
            ngen += 1
            h = hashlib.blake2b(data, digest_size=8).digest()
            if h in seen or data == src:
                continue
            seen.add(h)
            hashes.append(int.from_bytes(h, "big"))
            cases.append((vid, data, []))
    res = run_batch(runner, chibicc, wd, cases, asmdir) if cases else []
    counts = {"accepted": 0, "rejected": 0, "crash": 0, "timeout": 0}
    anomalies, msgs, eof_diag, asm_checked, asm_skipped = [], set(), 0, 0, 0
    for (cid, data, opts), (rid, status, err, ah, anew, tr) in zip(cases, res):
        if rid != cid:
            raise core.HarnessError("c13_run result order mismatch")
        outcome, an = judge(status, err, ah, data, opts, wd, loose=spec[0] == "probe")
        counts[outcome] += 1
        if outcome == "rejected":
            m = re.search(rb"^ *\^ (.*)$", err, re.M)
            if m:
                msgs.add(m.group(1)[:100].decode("utf-8", "replace"))
            m = _LOC.match(err)
            if m and m.group(1) == b"v.c" and int(m.group(2)) == count_lines(data) + 1:
                eof_diag += 1
        if outcome == "accepted" and anew:
            p = os.path.join(asmdir, ah + ".s")
            if b"asm" in data:          # inline asm text is the user's, not the compiler's
                asm_skipped += 1
            else:
                rc, e = assemble(p)
                asm_checked += 1
                if rc != 0:
                    an = ("as-reject", norm_as_msg(e))
                else:
                    mn = null_operand(p)
                    if mn:
                        an = ("asm-null-operand", mn)
            open(p, "w").close()        # keep the name as a "seen" marker, drop the text
        if an:
            anomalies.append({"seed": name, "valid": valid, "vid": cid, "cls": an[0], "detail": an[1], "data": data,
                              "opts": opts, "err": err[:600].decode("utf-8", "replace"), "trace": tr,
                              "status": status})
        elif valid and spec[0] == "seed" and outcome != "accepted":
            anomalies.append({"seed": name, "valid": valid, "vid": cid, "cls": "valid-rejected",
                              "detail": caret_msg(err), "data": data, "opts": opts,
                              "err": err[:600].decode("utf-8", "replace"), "trace": "", "status": status})
    return {"name": name, "spec": spec, "generated": ngen, "run": len(cases), "counts": counts, "anomalies": anomalies,
            "msgs": msgs, "hashes": hashes, "eof_diag": eof_diag, "asm_checked": asm_checked,
            "asm_skipped": asm_skipped,
            "seed_outcomes": [(c[0], r[1]) for c, r in zip(cases, res)] if spec[0] == "seed" else None}


# ---------------------------------------------------------------------------------------------------------
# naming the crash site

class Symbols:
    def __init__(self, chibicc, tree):
        rc, o, e = core.sh(["nm", "-n", chibicc])
        self.addrs, self.names = [], []
        for line in o.splitlines():
            f = line.split()
            if len(f) == 3 and f[1] in "tT":
                self.addrs.append(int(f[0], 16))
                self.names.append(f[2])
        self.tree = tree
        self.bias = 0
        with open(chibicc, "rb") as f:
            hdr = f.read(18)
        if hdr[16:18] == b"\x02\x00":       # ET_EXEC: the runner reports offsets from the lowest mapping
            rc, o, e = core.sh(["readelf", "-lW", chibicc])
            m = re.search(r"^\s*LOAD\s+0x[0-9a-f]+\s+0x([0-9a-f]+)", o, re.M)
            self.bias = int(m.group(1), 16) if m else 0

    def func(self, rel, is_ret):
        a = rel + self.bias - (1 if is_ret else 0)
        i = bisect.bisect_right(self.addrs, a) - 1
        return self.names[i] if i >= 0 else "?"

    def frames(self, trace):
        rels = [int(l[2:], 16) for l in trace.splitlines() if l.startswith("f ")]
        inexe = "inexe=1" in trace
        return [self.func(r, not (i == 0 and inexe)) for i, r in enumerate(rels)]

    def enclosing_function(self, fname, line):
        """name of the function whose body contains fname:line in the tree (for `internal error at f:l`)"""
        try:
            src = open(os.path.join(self.tree, os.path.basename(fname)), errors="replace").read().split("\n")
        except OSError:
            return "?"
        for i in range(min(line, len(src)) - 1, -1, -1):
            m = re.match(r"^[A-Za-z_][\w \*]*?\b(\w+)\s*\([^;]*$", src[i])
            if m and not src[i].startswith((" ", "\t", "}")):
                return m.group(1)
        return "?"


GENERIC_HELPERS = ("error", "error_at", "error_tok", "warn_tok", "verror_at", "equal", "skip", "consume")


def crash_site(sym, trace):
    """-> (class override or None, site)"""
    fr = sym.frames(trace)
    if not fr:
        return None, "unknown-site"
    if "overflow=1" in trace:
        cyc = sorted(set(f for f in fr if fr.count(f) >= 3)) or sorted(set(fr[:4]))
        return "stack-overflow", "+".join(cyc[:3])
    if fr[0] in GENERIC_HELPERS and len(fr) > 1:
        return None, fr[0] + "<-" + fr[1]      # a NULL token handed to a reporting/matching helper: name the caller
    return None, fr[0]


def signature(sym, an):
    cls, detail = an["cls"], an["detail"]
    if cls == "signal":
        n = int(an["status"][1:])
        over, site = crash_site(sym, an["trace"])
        return "C13|%s|%s" % (over or SIGNAMES.get(n, "SIG%d" % n), site)
    if cls == "timeout":
        fr = sym.frames(an["trace"])
        outer = [f for f in reversed(fr) if f not in ("main", "cc1", "_start")][:3]
        return "C13|hang|%s" % (">".join(outer) or "unknown-site")
    if cls == "internal-error":
        return "C13|internal-error|%s:%s" % (detail[0], sym.enclosing_function(detail[0], detail[1]))
    if cls == "valid-rejected":
        return "C13|valid-rejected|%s|%s" % (an["seed"], detail)
    if cls in ("silent-failure", "exit0-no-output"):
        return "C13|%s|%s|%s" % (cls, an["status"], "options" if an["opts"] else edit_class(an["vid"]))
    return "C13|%s|%s" % (cls, detail)


def case_signatures(chibicc, tree, runner, wd, data, opts, asmdir, sym=None, confirm=True):
    """Full analysis of one case (used by the replay script): the list of signatures it violates."""
    sym = sym or Symbols(chibicc, tree)
    cid, status, err, ah, anew, tr = run_batch(runner, chibicc, wd, [("c", data, opts)], asmdir)[0]
    outcome, an = judge(status, err, ah, data, opts, wd)
    sigs = []
    if outcome == "timeout" and confirm:
        cid, status, err, ah, anew, tr = run_batch(runner, chibicc, wd, [("c", data, opts)], asmdir,
                                                   cpu=CONFIRM_CPU_S, wall=CONFIRM_WALL_S)[0]
        outcome, an = judge(status, err, ah, data, opts, wd)
        if status == "T":
            an = None                      # starved, not hung
    if outcome == "accepted" and ah != "0" * 16 and b"asm" not in data:
        p = os.path.join(asmdir, ah + ".s")
        if os.path.exists(p) and os.path.getsize(p):
            rc, e = assemble(p)
            if rc != 0:
                an = ("as-reject", norm_as_msg(e))
            elif null_operand(p):
                an = ("asm-null-operand", null_operand(p))
    if an:
        sigs.append(signature(sym, {"cls": an[0], "detail": an[1], "status": status, "trace": tr, "opts": opts,
                                    "vid": "x", "seed": "?"}))
    return sigs, status, err


REPLAY = """# files: v.c (input), opts.txt (one cc1 option per line), sig.txt (expected signature), aux headers
exec python3 "$VERIF/checks/c13.py" --replay-case . "$CHIBICC" "$CHIBICC_DIR"
"""


def replay_case(d, chibicc, tree):
    import tempfile
    tmp = tempfile.mkdtemp(prefix="vp_c13r_")
    try:
        runner = build_runner(tmp)
        wd = os.path.join(tmp, "w")
        asmdir = os.path.join(tmp, "asm")
        os.makedirs(wd)
        os.makedirs(asmdir)
        for f in os.listdir(d):
            if f.endswith(".h"):
                shutil.copy(os.path.join(d, f), wd)
        data = open(os.path.join(d, "v.c"), "rb").read()
        opts = [l for l in open(os.path.join(d, "opts.txt")).read().split("\n") if l]
        want = open(os.path.join(d, "sig.txt")).read().strip()
        sigs, status, err = case_signatures(chibicc, tree, runner, wd, data, opts, asmdir)
        print("expected %s\nobserved %s status=%s\n%s" % (want, sigs, status, err[:300].decode("utf-8", "replace")))
        if want.startswith("C13|valid-rejected|"):
            return 1 if status != "E0" else 0
        return 1 if want in sigs else 0
    finally:
        shutil.rmtree(tmp, ignore_errors=True)


# ---------------------------------------------------------------------------------------------------------

def diagnostic_sites(tree):
    """format strings of all error_tok/error_at/error calls in the tree -> [(file, fmt, regex)]"""
    sites = []
    for f in ("tokenize.c", "preprocess.c", "parse.c", "type.c", "codegen.c"):
        try:
            src = open(os.path.join(tree, f), errors="replace").read()
        except OSError:
            continue
        for m in re.finditer(r"\berror_(?:tok|at)\s*\(\s*[^,]+,\s*((?:\"(?:\\.|[^\"\\])*\"\s*)+)", src):
            fmt = "".join(re.findall(r"\"((?:\\.|[^\"\\])*)\"", m.group(1)))
            rx = re.escape(fmt)
            rx = re.sub(r"%[sd]", ".*", rx.replace("\\%", "%"))
            sites.append((f, fmt, re.compile("^" + rx + "$")))
    return sites


def load_seeds():
    seeds = []
    for sub, valid in (("valid", True), ("invalid", False)):
        d = os.path.join(SEEDS, sub)
        for f in sorted(os.listdir(d)):
            if f.endswith(".c"):
                seeds.append((("v_" if valid else "i_") + f[:-2], valid, open(os.path.join(d, f), "rb").read()))
    return seeds


def _confirm(item):
    chibicc, runner, wd, an, cpu, wall, mem = item
    os.makedirs(wd, exist_ok=True)
    for f in os.listdir(os.path.join(SEEDS, "aux")):
        shutil.copy(os.path.join(SEEDS, "aux", f), wd)
    r = run_batch(runner, chibicc, wd, [("c", an["data"], an["opts"])], "-", cpu=cpu, wall=wall, mem=mem)[0]
    return r[1], r[5]


def run(ctx):
    tier = ctx.tier
    runner = build_runner(ctx.work)
    sym = Symbols(ctx.chibicc, ctx.tree)
    if len(sym.addrs) < 100:
        raise core.HarnessError("nm gives no symbol table for the built chibicc")
    seeds = load_seeds()
    alpha_idx = ([FULL_ALPHABET.index(a) for a in QUICK_ALPHABET] if tier == "quick"
                 else list(range(len(FULL_ALPHABET))))

    items = []
    for name, valid, src in seeds:
        ntok = len(lex(src)[0])
        items.append((name, valid, src, ("seed",), len(OPTION_SETS)))
        per_pos = 3 + 2 * len(alpha_idx)
        if tier == "quick":
            items.append((name, valid, src, ("tok1", tuple(alpha_idx)), ntok * per_pos))
        else:
            for part in core.chunks(alpha_idx, 40):
                items.append((name, valid, src, ("tok1", tuple(part)), ntok * (3 + 2 * len(part))))
        items.append((name, valid, src, ("byte", tier), len(src) * (len(BYTE_ALPHABET[tier]) + 1)))
        if ntok <= DEV2_MAXTOK[tier]:
            n1 = ntok * (3 + 2 * len(DEV2_ALPHABET)) + len(DEV2_ALPHABET)
            nsl = 4
            for k in range(nsl):
                items.append((name, valid, src, ("tok2", k, nsl), n1 * n1 // nsl))
    items.append(("probe", True, PROBE_UNIT, ("probe",), len(OPTION_PROBES)))
    # largest first for load balance; VERIF_SEED only permutes the order of equal-sized items
    items.sort(key=lambda it: (-it[4], hashlib.sha1((it[0] + repr(it[3]) + str(ctx.seed)).encode()).hexdigest()))
    args = [(ctx.chibicc, runner, os.path.join(ctx.work, "w%d" % i), it[0], it[1], it[2], it[3])
            for i, it in enumerate(items)]

    results = []
    done_items = 0
    from concurrent.futures import ProcessPoolExecutor
    with ProcessPoolExecutor(max_workers=core.NPROC) as ex:
        futs = []
        for a in args:
            futs.append(ex.submit(_work, a))
        for i, f in enumerate(futs):
            while not f.done() and not ctx.out_of_time(reserve=60):
                try:
                    f.result(timeout=2)
                except Exception:
                    pass
            if not f.done():
                for g in futs[i:]:
                    if g.done():
                        results.append(g.result())
                        done_items += 1
                    else:
                        g.cancel()
                ctx.incomplete("deadline: %d of %d neighbourhood items finished (an item is one seed x one edit "
                               "family; see items_done)" % (done_items, len(futs)))
                break
            results.append(f.result())
            done_items += 1

    # ---- driver-level probes of option spellings that lack their argument --------------------------------
    dwd = ctx.mkdir("driver")
    with open(os.path.join(dwd, "v.c"), "wb") as f:
        f.write(PROBE_UNIT)
    driver_runs = 0
    for o in DRIVER_PROBES:
        st, out, err = core.run_limited([ctx.chibicc] + o + ["-S", "-o", "v.s", "v.c"], cwd=dwd, limits=True,
                                        cpu=CPU_S, timeout=WALL_S)
        driver_runs += 1
        bad = None
        if st == "timeout":
            bad = "hang"
        elif st < 0:
            bad = SIGNAMES.get(-st, "SIG%d" % -st)
        elif st != 0 and not err.strip():
            bad = "silent-failure"
        if bad:
            ctx.violation("C13|driver-%s|option%s" % (bad, "".join(o) or "-none"),
                          "driver invoked as `chibicc %s -S -o v.s v.c`: %s; stderr %r" % (" ".join(o), bad, err[:200]),
                          files={"v.c": PROBE_UNIT, "opts.txt": "".join(x + "\n" for x in o)},
                          replay=("timeout 20 $CHIBICC $(cat opts.txt) -S -o v.s v.c >out.txt 2>err.txt; rc=$?\n"
                                  "[ $rc -ge 124 ] && exit 1\n[ $rc -ne 0 ] && [ ! -s err.txt ] && exit 1\nexit 0"))

    # ---- aggregate ------------------------------------------------------------------------------------
    tot = {"accepted": 0, "rejected": 0, "crash": 0, "timeout": 0}
    nrun = ngen = eof_diag = asm_checked = asm_skipped = 0
    distinct, msgs, anomalies = set(), set(), []
    by_family = {}
    seed_status = {}
    for r in results:
        for k in tot:
            tot[k] += r["counts"][k]
        nrun += r["run"]
        ngen += r["generated"]
        eof_diag += r["eof_diag"]
        asm_checked += r["asm_checked"]
        asm_skipped += r["asm_skipped"]
        distinct.update(r["hashes"])
        msgs |= r["msgs"]
        anomalies += r["anomalies"]
        by_family[r["spec"][0]] = by_family.get(r["spec"][0], 0) + r["run"]
        if r["seed_outcomes"]:
            seed_status[r["name"]] = r["seed_outcomes"]
    if nrun == 0 or tot["accepted"] == 0 or tot["rejected"] == 0:
        raise core.HarnessError("vacuous run: %s" % tot)
    nvalid = sum(1 for s in seeds if s[1])
    invalid_accepted = sorted(n for n, st in seed_status.items() if n.startswith("i_") and st[0][1] == "E0")

    sites = diagnostic_sites(ctx.tree)
    fmts = sorted(set(s[1] for s in sites))
    reached = sorted(set(fmt for f, fmt, rx in sites if any(rx.match(m) for m in msgs)))
    if len(fmts) < 20 or len(reached) < 10:
        raise core.HarnessError("diagnostic site scan degenerate: %d sites, %d reached" % (len(fmts), len(reached)))

    # ---- crashes that disappear with 4x the memory are out-of-memory deaths; timeouts get 10x ----------
    crash = [a for a in anomalies if a["cls"] == "signal" and "overflow=1" not in a["trace"]]
    conf = core.pmap(_confirm, [(ctx.chibicc, runner, os.path.join(ctx.work, "c%d" % i), a, CONFIRM_CPU_S,
                                 CONFIRM_WALL_S, MEM_MB * 4) for i, a in enumerate(crash)], nproc=4, chunksize=8)
    oom = 0
    for a, (st, tr) in zip(crash, conf):
        if st != a["status"]:
            a["oom"] = True
            oom += 1
    touts = sorted((a for a in anomalies if a["cls"] == "timeout"), key=lambda a: (len(a["data"]), a["data"]))
    unconfirmed = 0
    keep = []
    budget_cases = 16 if ctx.time_left() > CONFIRM_CPU_S + 40 else 0
    conf = core.pmap(_confirm, [(ctx.chibicc, runner, os.path.join(ctx.work, "t%d" % i), a, CONFIRM_CPU_S,
                                 max(CONFIRM_CPU_S + 10, min(CONFIRM_WALL_S, int(ctx.time_left()) - 30)), MEM_MB)
                                for i, a in enumerate(touts[:budget_cases])], nproc=16)
    confirmed_hang = {}
    for a, (st, tr) in zip(touts[:budget_cases], conf):
        if st in ("S24", "S9"):            # consumed 10x the CPU limit: a hang, not a slow machine
            a["trace"] = tr or a["trace"]
            confirmed_hang[signature(sym, a)] = True
            keep.append(a)
        else:
            unconfirmed += 1
    for a in touts[budget_cases:]:
        if signature(sym, a) in confirmed_hang:
            keep.append(a)
        else:
            unconfirmed += 1
    anomalies = [a for a in anomalies if a["cls"] != "timeout"] + keep

    # ---- report: smallest reproducer per signature -----------------------------------------------------
    aux = {f: open(os.path.join(SEEDS, "aux", f)).read() for f in sorted(os.listdir(os.path.join(SEEDS, "aux")))}
    # The ptrace observer occasionally misses the stack of a dying child (empty trace): such a crash is real, but its
    # signature must be derived deterministically, so those cases are re-run alone until a stack is captured.
    retraced = 0
    for k, a in enumerate(anomalies):
        if a["cls"] == "signal" and not sym.frames(a["trace"]):
            for attempt in range(4):
                r = run_batch(runner, ctx.chibicc, os.path.join(ctx.work, "retrace%d" % k), [("c", a["data"], a["opts"])], "-")[0]
                if sym.frames(r[5]):
                    a["trace"] = r[5]
                    retraced += 1
                    break
    ctx.cover(crash_stacks_recaptured=retraced)
    bysig = {}
    for a in anomalies:
        sig = signature(sym, a)
        if a.get("oom"):
            sig = sig.replace("C13|", "C13|out-of-memory-", 1)
        bysig.setdefault(sig, []).append(a)
    for sig in sorted(bysig):
        group = sorted(bysig[sig], key=lambda a: (len(a["data"]), a["data"], a["opts"]))
        a = group[0]
        fr = sym.frames(a["trace"])[:6]
        desc = ("%d inputs; smallest: seed %s edit %s opts %s status %s%s; stderr: %s; input: %r"
                % (len(group), a["seed"], a["vid"], a["opts"], a["status"],
                   (" stack " + "<".join(fr)) if fr else "", a["err"][:160].replace("\n", "\\n"), a["data"][:200]))
        files = dict(aux)
        files.update({"v.c": a["data"], "opts.txt": "".join(o + "\n" for o in a["opts"]), "sig.txt": sig + "\n",
                      "stderr.txt": a["err"], "stack.txt": "\n".join(sym.frames(a["trace"])[:40]) + "\n"})
        for _ in group:
            ctx.violation(sig, desc, files=files, replay=REPLAY)

    ctx.cover(evaluations=nrun, distinct_nontrivial=len(distinct), generated_variants=ngen,
              rule=("a case is one (input bytes, option list); non-trivial = its bytes differ from every other case "
                    "counted (64-bit content hash) - seeds themselves plus every deviation-1/2 token edit and byte "
                    "edit that changes the seed; each case is one real `chibicc -cc1` process judged by wait status, "
                    "stderr location and `as`"),
              seeds_valid=nvalid, seeds_invalid=len(seeds) - nvalid, token_alphabet=len(alpha_idx),
              byte_alphabet=len(BYTE_ALPHABET[tier]), option_sets=len(OPTION_SETS), option_probes=len(OPTION_PROBES), driver_probes=driver_runs,
              runs_by_family=by_family, accepted=tot["accepted"], rejected_with_diagnostic=tot["rejected"],
              died_by_signal=tot["crash"], timeouts_first_pass=tot["timeout"], timeouts_unconfirmed=unconfirmed,
              out_of_memory_deaths=oom, distinct_asm_outputs_assembled=asm_checked, asm_skipped_inline_asm=asm_skipped,
              diagnostics_at_eof_line=eof_diag, diag_sites_total=len(fmts), diag_sites_reached=len(reached),
              diag_sites_unreached=[f for f in fmts if f not in reached],
              invalid_seeds_accepted_no_verdict=invalid_accepted, items_total=len(items), items_done=done_items,
              bounds_completed={"deviation0": True, "deviation1_tokens": len(alpha_idx), "byte_edits": True,
                                "deviation2_max_tokens": DEV2_MAXTOK[tier]} if ctx.exhaustive else "see notes")
    for name in ("v_switch", "i_pp_paste_invalid"):
        src = dict((s[0], s[2]) for s in seeds)[name]
        vs = list(gen_variants(src, ("tok1", tuple(alpha_idx[:3]))))
        ctx.sample({"seed": name, "edit": vs[len(vs) // 2][0], "variant": vs[len(vs) // 2][1].decode("latin1")})
    ctx.assume("the assembler, the kernel's wait status and /proc/<pid>/maps are trusted")
    ctx.assume("inputs further than the stated deviations from the seed corpus are not explored; rejection of valid "
               "programs is judged only for the valid seeds (no verdict from gcc on edited programs)")
    ctx.assume("a diagnostic on line (last line + 1) is accepted as 'existing': chibicc places its EOF token there")
    ctx.assume("RLIMIT_AS 2 GB / CPU 5 s per run; a first-pass timeout counts only if it persists with 10x limits")


if __name__ == "__main__":
    if len(sys.argv) == 5 and sys.argv[1] == "--replay-case":
        sys.exit(replay_case(os.path.abspath(sys.argv[2]), sys.argv[3], sys.argv[4]))
    print("usage: c13.py --replay-case <dir> <chibicc> <tree>")
    sys.exit(2)
