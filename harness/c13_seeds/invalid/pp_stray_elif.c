#elif 1
