int n;
int a[n];
int f(void) { return sizeof(a); }
