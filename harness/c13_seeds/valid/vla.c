int f(int n) {
  int a[n];
  int b[n][2];
  a[0] = sizeof(a);
  b[1][1] = 2;
  return a[0] + b[1][1] + sizeof b;
}
