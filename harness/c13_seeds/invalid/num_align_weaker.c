int f(void) { _Alignas(2) long x = 1; return x; }
