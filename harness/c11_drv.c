// C11 twin driver.  Each twin exports
//   struct VRow { const void *p; unsigned long n; long v[6]; } PFX##rows[];  unsigned long PFX##nrows;
//   void PFX##fill(long *out);  unsigned long PFX##nfill;        (run-time evaluated values, one per row or 0)
// Text mode (default): one line per row  "<i>|<cc n>|<cc v0..v5>|<cc rt>|<cc hex bytes>|<ref n>|<ref v>|<ref rt>|<ref hex>"
// -DCC_ONLY: only the chibicc twin is linked; rows are dumped in binary: u64 n, then n bytes (p), per row.
#include <stdio.h>
#include <stdlib.h>
#include <string.h>
struct VRow { const void *p; unsigned long n; long v[6]; };
extern struct VRow cc_rows[]; extern unsigned long cc_nrows, cc_nfill; void cc_fill(long *);
#ifndef CC_ONLY
extern struct VRow ref_rows[]; extern unsigned long ref_nrows, ref_nfill; void ref_fill(long *);
#endif
#define CAP (1ul << 27)

static void side(struct VRow *r, long *rt, unsigned long nfill, unsigned long i) {
  printf("|%lu|", r->n);
  for (int k = 0; k < 6; k++) printf("%s%ld", k ? "," : "", r->v[k]);
  if (i < nfill) printf("|%ld|", rt[i]); else printf("|-|");
  if (r->p && r->n <= CAP) { const unsigned char *b = r->p; for (unsigned long k = 0; k < r->n; k++) printf("%02x", b[k]); }
}

int main(void) {
#ifdef CC_ONLY
  for (unsigned long i = 0; i < cc_nrows; i++) {
    unsigned long n = cc_rows[i].n;
    fwrite(&n, 8, 1, stdout);
    if (n <= CAP && cc_rows[i].p) fwrite(cc_rows[i].p, 1, n, stdout);
  }
  return 0;
#else
  if (cc_nrows != ref_nrows) { printf("NROWS %lu %lu\n", cc_nrows, ref_nrows); }
  unsigned long n = cc_nrows < ref_nrows ? cc_nrows : ref_nrows;
  long *crt = calloc(cc_nfill + ref_nfill + 16, sizeof(long)), *rrt = calloc(cc_nfill + ref_nfill + 16, sizeof(long));
  cc_fill(crt); ref_fill(rrt);
  for (unsigned long i = 0; i < n; i++) {
    printf("%lu", i);
    side(&cc_rows[i], crt, cc_nfill, i);
    side(&ref_rows[i], rrt, ref_nfill, i);
    printf("\n");
  }
  printf("END %lu\n", n);
  return 0;
#endif
}
