int l = __LINE__;
char *f = __FILE__;
char *d = __DATE__;
int c = __COUNTER__;
char *fn(void) { return (char *)__func__; }
#line 50 "x.c"
int m = __LINE__;
#pragma once
