struct N { int v; struct N *next; };
union U { int i; float f; char b[4]; };
enum E { A, B = 5, C };
int f(struct N *n, union U u) { enum E e = C; return n->next->v + u.i + e + sizeof(union U); }
