"""Shared machinery for the chibicc checks: tree snapshot/build, scratch space,
violation bookkeeping (known findings, replay artefacts), evidence, process pools.

Python stdlib only.
"""
import atexit, fnmatch, hashlib, json, os, re, resource, shutil, signal, subprocess, sys, tempfile, time
from concurrent.futures import ProcessPoolExecutor

VERIF = os.path.dirname(os.path.dirname(os.path.abspath(__file__)))
REPO = os.environ.get("VERIF_REPO", "/repo")
NPROC = int(os.environ.get("VERIF_NPROC", str(os.cpu_count() or 4)))
FINDINGS_FILE = os.path.join(VERIF, "known_findings.txt")


class HarnessError(Exception):
    """The check itself is broken (never reported as a VIOLATION)."""


def sh(cmd, cwd=None, timeout=None, env=None, input=None, check=False):
    """Run a command (list or shell string); returns (rc, stdout, stderr) as text."""
    p = subprocess.run(cmd, shell=isinstance(cmd, str), cwd=cwd, timeout=timeout, env=env,
                       input=input, stdout=subprocess.PIPE, stderr=subprocess.PIPE,
                       text=True, errors="replace")
    if check and p.returncode != 0:
        raise HarnessError("command failed (%d): %s\n%s\n%s" % (p.returncode, cmd, p.stdout[-2000:], p.stderr[-2000:]))
    return p.returncode, p.stdout, p.stderr


def _limits(cpu, mem):
    def f():
        if cpu:
            resource.setrlimit(resource.RLIMIT_CPU, (cpu, cpu + 1))
        if mem:
            resource.setrlimit(resource.RLIMIT_AS, (mem, mem))
        resource.setrlimit(resource.RLIMIT_CORE, (0, 0))
    return f


def run_limited(argv, cwd=None, cpu=5, mem=2 << 30, timeout=30, input=None, env=None, binary=False, limits=False):
    """Run argv. Returns (status, out, err): status>=0 exit code, <0 = -signal, 'timeout' if the wall limit
    was hit.  limits=True additionally applies RLIMIT_CPU/RLIMIT_AS (costs a fork instead of a vfork)."""
    try:
        p = subprocess.run(argv, cwd=cwd, input=input, env=env, stdout=subprocess.PIPE, stderr=subprocess.PIPE,
                           timeout=timeout, preexec_fn=_limits(cpu, mem) if limits else None)
    except subprocess.TimeoutExpired as e:
        return "timeout", (e.stdout or b""), (e.stderr or b"")
    out, err = p.stdout, p.stderr
    if not binary:
        out = out.decode("utf-8", "replace")
        err = err.decode("utf-8", "replace")
    return p.returncode, out, err


def pmap(fn, items, nproc=None, chunksize=1):
    """Ordered parallel map over a process pool (fork)."""
    items = list(items)
    if not items:
        return []
    n = min(nproc or NPROC, len(items))
    if n <= 1:
        return [fn(x) for x in items]
    with ProcessPoolExecutor(max_workers=n) as ex:
        return list(ex.map(fn, items, chunksize=chunksize))


def chunks(seq, n):
    seq = list(seq)
    return [seq[i:i + n] for i in range(0, len(seq), n)]


class Ctx:
    def __init__(self, prop, tier, level, budget_s):
        self.prop = prop
        self.tier = tier
        self.level = level
        self.seed = int(os.environ.get("VERIF_SEED", "0") or 0)
        self.t0 = time.time()
        self.deadline = self.t0 + budget_s
        resource.setrlimit(resource.RLIMIT_CORE, (0, 0))
        self.work = tempfile.mkdtemp(prefix="vp_%s_" % prop)
        atexit.register(self._cleanup)
        self._pid = os.getpid()
        self.tree = None
        self.chibicc = None
        self.coverage = {"samples": []}
        self.assumptions = []
        self.violations = {}      # sig -> dict
        self.known_hit = {}       # finding pattern -> count
        self.nviol_raw = 0
        self.exhaustive = True
        self.notes = []
        self.findings = load_findings(prop)

    # ---- scratch -------------------------------------------------------
    def _cleanup(self):
        if os.getpid() == self._pid:
            shutil.rmtree(self.work, ignore_errors=True)

    def time_left(self):
        return self.deadline - time.time()

    def out_of_time(self, reserve=0):
        return time.time() + reserve > self.deadline

    def mkdir(self, name):
        d = os.path.join(self.work, name)
        os.makedirs(d, exist_ok=True)
        return d

    # ---- tree ----------------------------------------------------------
    def build_tree(self, name="tree", cflags=None):
        """Copy /repo's working tree (no .git, no build products) and build it with its own Makefile."""
        dst = os.path.join(self.work, name)
        sh(["rsync", "-a", "--exclude=.git", "--exclude=*.o", "--exclude=/chibicc", "--exclude=/stage2",
            "--exclude=*.exe", "--exclude=/tmp*", "--exclude=/_build", REPO + "/", dst + "/"], check=True)
        cmd = ["make", "-s", "-j%d" % NPROC, "chibicc"]
        if cflags:
            cmd.append("CFLAGS=" + cflags)
        rc, o, e = sh(cmd, cwd=dst)
        if rc != 0:
            raise HarnessError("repo does not build:\n" + e[-3000:])
        if name == "tree":
            self.tree = dst
            self.chibicc = os.path.join(dst, "chibicc")
            self.include = os.path.join(dst, "include")
        return dst

    def build_stage(self, prev_tree, name):
        """Build chibicc with the chibicc of prev_tree (same relative layout: <dir>/chibicc)."""
        dst = os.path.join(self.work, name)
        sh(["rsync", "-a", "--exclude=.git", "--exclude=*.o", "--exclude=/chibicc", "--exclude=/stage2",
            "--exclude=*.exe", "--exclude=/tmp*", REPO + "/", dst + "/"], check=True)
        srcs = sorted(f for f in os.listdir(dst) if f.endswith(".c"))

        def one(f):
            return sh([os.path.join(prev_tree, "chibicc"), "-c", "-o", f[:-2] + ".o", f], cwd=dst)
        for f in srcs:
            rc, o, e = one(f)
            if rc != 0:
                raise HarnessError("stage build failed on %s: %s" % (f, e[-2000:]))
        sh(["gcc", "-o", "chibicc"] + [f[:-2] + ".o" for f in srcs], cwd=dst, check=True)
        return dst

    # ---- running the compiler -------------------------------------------
    def cc1(self, src, out, extra=(), cwd=None, cpu=5, timeout=30, chibicc=None):
        """Run the front end directly so signals are visible."""
        argv = [chibicc or self.chibicc, "-cc1", "-cc1-input", src, "-cc1-output", out] + list(extra) + [src]
        return run_limited(argv, cwd=cwd, cpu=cpu, timeout=timeout)

    # ---- evidence ------------------------------------------------------
    def cover(self, **kw):
        for k, v in kw.items():
            if isinstance(v, int) and isinstance(self.coverage.get(k), int):
                self.coverage[k] += v
            else:
                self.coverage[k] = v

    def sample(self, x, limit=6):
        if len(self.coverage["samples"]) < limit:
            self.coverage["samples"].append(x)

    def assume(self, s):
        if s not in self.assumptions:
            self.assumptions.append(s)

    def incomplete(self, why):
        self.exhaustive = False
        self.notes.append(why)

    # ---- violations ----------------------------------------------------
    def violation(self, sig, desc, files=None, replay=None):
        """Record a violation.  sig: canonical signature (case class + observed deviation class).
        files: {name: text|bytes} written into the replay directory.
        replay: shell script body; run with $CHIBICC (binary), $CHIBICC_DIR (its tree), $VERIF; must
        exit 1 when the violation reproduces and 0 when it does not."""
        self.nviol_raw += 1
        for pat in self.findings:
            if pat == sig or fnmatch.fnmatchcase(sig, pat):
                self.known_hit[pat] = self.known_hit.get(pat, 0) + 1
                return False
        if sig not in self.violations:
            self.violations[sig] = {"sig": sig, "desc": desc, "files": files or {}, "replay": replay, "count": 0}
        self.violations[sig]["count"] += 1
        return True

    def _write_replay(self, v):
        h = hashlib.sha1(v["sig"].encode()).hexdigest()[:12]
        d = os.path.join(VERIF, "replays" if not os.environ.get("VERIF_NO_EVIDENCE") else "replays/mutant", self.prop, h)
        shutil.rmtree(d, ignore_errors=True)
        os.makedirs(d)
        for name, content in v["files"].items():
            p = os.path.join(d, name)
            os.makedirs(os.path.dirname(p), exist_ok=True)
            with open(p, "wb") as f:
                f.write(content if isinstance(content, bytes) else content.encode("utf-8", "surrogateescape"))
        with open(os.path.join(d, "info.json"), "w") as f:
            json.dump({"property": self.prop, "sig": v["sig"], "desc": v["desc"], "count": v["count"]}, f, indent=1)
        if v["replay"]:
            with open(os.path.join(d, "replay.sh"), "w") as f:
                f.write("#!/bin/sh\n# exit 1 = violation reproduces, 0 = does not\n" + v["replay"] + "\n")
        return d

    def finish(self):
        wall = time.time() - self.t0
        cov = self.coverage
        cov["exhaustive"] = bool(self.exhaustive)
        if self.notes:
            cov["notes"] = self.notes
        cov["known_findings_reproduced"] = {k: v for k, v in self.known_hit.items()}
        cov["raw_violating_cases"] = self.nviol_raw
        confirmed = []
        flaky = []
        for sig in sorted(self.violations):
            v = self.violations[sig]
            d = self._write_replay(v)
            if v["replay"] and len(confirmed) < 40:
                rc = run_replay(d, self.tree)
                if rc == 0:
                    flaky.append((sig, d))
                    continue
            confirmed.append((sig, d, v))
        ev = {"property_id": self.prop, "tier": self.tier, "seed": self.seed, "level": self.level,
              "coverage": cov, "assumptions": self.assumptions, "wall_s": round(wall, 2),
              "violations": len(confirmed)}
        os.makedirs(os.path.join(VERIF, "evidence"), exist_ok=True)
        evdir = os.path.join(VERIF, "evidence")
        if os.environ.get("VERIF_NO_EVIDENCE"):      # mutant runs must not overwrite the committed evidence
            evdir = self.work
        with open(os.path.join(evdir, self.prop + ".json"), "w") as f:
            json.dump(ev, f, indent=1, default=str)
        for pat, n in sorted(self.known_hit.items()):
            print("KNOWN-FINDING: property=%s %s (%d cases)" % (self.prop, pat, n))
        for sig, d, v in confirmed[:60]:
            print("VIOLATION property=%s replay=%s sig=%s -- %s" % (self.prop, d, sig, v["desc"][:300]))
        summary = {k: v for k, v in cov.items() if isinstance(v, (int, float, bool))}
        print("[%s %s] wall=%.1fs %s" % (self.prop, self.tier, wall, json.dumps(summary)))
        if flaky:
            for sig, d in flaky:
                print("HARNESS-ERROR: violation did not reproduce on replay: %s (%s)" % (sig, d))
            return 2
        return 1 if confirmed else 0


def load_findings(prop):
    pats = []
    import glob
    for fn in [FINDINGS_FILE] + sorted(glob.glob(os.path.join(VERIF, "findings.d", "*.txt"))):
        if not os.path.exists(fn):
            continue
        for line in open(fn):
            line = line.strip()
            m = re.match(r"finding:\s+property=(\S+)\s+sig=(\S+)", line)
            if m and m.group(1) == prop:
                pats.append(m.group(2))
    return pats


def run_replay(d, tree=None):
    """Re-run a replay artefact against a built tree; returns the script's exit code."""
    script = os.path.join(d, "replay.sh")
    if not os.path.exists(script):
        return 1
    tmp = tempfile.mkdtemp(prefix="vp_replay_")
    try:
        wd = os.path.join(tmp, "r")
        shutil.copytree(d, wd)
        env = dict(os.environ)
        env.update({"CHIBICC": os.path.join(tree, "chibicc"), "CHIBICC_DIR": tree, "VERIF": VERIF})
        p = subprocess.run(["sh", "replay.sh"], cwd=wd, env=env, stdout=subprocess.PIPE, stderr=subprocess.STDOUT,
                           timeout=300)
        return p.returncode
    finally:
        shutil.rmtree(tmp, ignore_errors=True)
