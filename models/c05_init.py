"""Reference model of C11 6.7.9 (initialization) for the C05 check.

Types (immutable tuples):
  ('sc', key)              scalar, key into SC
  ('bf', key, width)       bit-field member (struct/union members only)
  ('arr', elem, n)         n None = unknown bound (top level) or flexible array member (last struct member)
  ('st', ((name, ty), ..)[, attrs]) name None = anonymous struct/union member
  ('un', ((name, ty), ..)[, attrs])
       attrs (optional, sorted tuple) describe what 6.7.9 does NOT look at - they change the layout/declaration only:
         ('packed',)                 __attribute__((packed)) on the struct/union
         ('al', idx, n)              member idx is declared with _Alignas(n)
         ('ubf', idx, key, width)    an UNNAMED bit-field `T :width;` is declared before member idx (idx == number of
                                     members: after the last one).  6.7.9p9: unnamed members do not participate in
                                     initialization, so the model never sees them: they exist in decl() only.

Initializers (mutable, thawed from the generator's tuples):
  {'k':'a', 'style':..}                      assignment-expression (text/value filled in when it lands on a leaf);
                                             style 'plain' | 'cross' | ('pa', j) address constant PTR_ATOMS[type][j] |
                                             ('na', j) arithmetic constant NUM_ATOMS[j]
  {'k':'s', 'elem':key, 'len':L, 'u8':bool, 'var':v}  string literal; v None (letters) or one of STRVARS (embedded
                                             null characters, escape sequences / extended characters)
  {'k':'l', 'items':[(desig, ini)..], 'tc':bool}   braced list; desig = None | [('f',name)|('i',i)|('r',a,b)..]
  {'k':'x', 'ty':T}                          expression of struct/union type T (an automatic variable y<n> of exactly
                                             that type, set up member by member by assignments): initializes a
                                             subobject of type T as a whole (6.7.9p13), reached positionally, by a
                                             designator or by brace elision (p20: "only enough initializers from the
                                             list are taken ..." - descent stops at the subobject of type T)
  further styles of 'a': ('iv', v) the integer constant v (byte family); variants of 's': ('bp', b1, b2, form) the
  adjacent bytes b1, b2 (byte family, see byte_pair_body)

Leaf values ("dump encoding", one or two longs per leaf): integers and _Bool by value, pointers as (object, offset)
codes, floating leaves BYTEWISE: the 4 bytes of a float, the 8 bytes of a double, the 10 significant bytes of an x87
long double (two dump slots: bytes 0..7 and bytes 8..9), computed exactly (Fraction arithmetic, ties to even).

evaluate(ty, ini) walks the initializer exactly as 6.7.9 p17-p21 describe (current object, designators reset it,
brace elision descends to the first subobject, later initializers override earlier ones for the same subobject, a braced
or string initializer for a subobject replaces everything said before about that subobject, everything not mentioned
is zero) and returns the object tree.  It raises Invalid for anything that is a constraint violation (excess elements,
unknown member, index out of range, type mismatch), so it doubles as the validity filter of the generator/shrinker.
"""
from fractions import Fraction

MAXIDX = 8          # bound for indices in arrays of unknown size


class Invalid(Exception):
    pass


# key: (kind, bits, signed, declarator template)
SC = {
    'char': ('int', 8, True, 'char %s'),
    'schar': ('int', 8, True, 'signed char %s'),
    'uchar': ('int', 8, False, 'unsigned char %s'),
    'short': ('int', 16, True, 'short %s'),
    'ushort': ('int', 16, False, 'unsigned short %s'),
    'int': ('int', 32, True, 'int %s'),
    'uint': ('int', 32, False, 'unsigned int %s'),
    'long': ('int', 64, True, 'long %s'),
    'ulong': ('int', 64, False, 'unsigned long %s'),
    'bool': ('bool', 1, False, '_Bool %s'),
    'float': ('flt', 32, True, 'float %s'),
    'double': ('flt', 64, True, 'double %s'),
    'ldouble': ('flt', 80, True, 'long double %s'),
    'pchar': ('ptr', 64, False, 'char *%s'),
    'pint': ('ptr', 64, False, 'int *%s'),
    'pvoid': ('ptr', 64, False, 'void *%s'),
    'pfn': ('ptr', 64, False, 'int (*%s)(void)'),
}
CHARLIKE = {'char': '', 'schar': '', 'uchar': '', 'ushort': 'u', 'uint': 'U', 'int': 'L'}

# address constants: text (with FN() names of the unit's globals) -> (base id, byte offset)
# int gi; int ga[4]; struct{int k; int m; int n[2];} gs; char gc[8]; fns; int gm[2][3]
BASES = ['gi', 'ga', 'gs', 'gc', 'fn0', 'fn1', 'gm']
BASE_SIZES = [4, 16, 16, 8, 1, 1, 24]
STR = 'str'         # pseudo base: a string literal; "offset" = index into the literal; identified by content
# (text, base, offset[, form flag]).  The FIRST EIGHT of every list are what the 'plain' atom style rotates over (kept as
# they were); the 'pa' style names any entry explicitly (address-constant family of the check: every form everywhere).
# %s in a text is replaced by a string literal whose content is unique to the atom.
PTR_ATOMS = {
    'pint': [('&FN(gi)', 0, 0), ('&FN(ga)[2]', 1, 8), ('FN(ga)+1', 1, 4), ('&FN(gs).m', 2, 4), ('FN(ga)', 1, 0),
             ('&FN(gs).n[1]', 2, 12), ('&FN(ga)[4]-1', 1, 12), ('FN(gs).n', 2, 8),
             ('&FN(gm)[1][2]', 6, 20, 'subarray-address'), ('FN(gm)[1]+1', 6, 16, 'subarray-address'),
             ('*FN(gm)+4', 6, 16, 'subarray-address'), ('FN(gm)[1]', 6, 12, 'subarray-address'),
             ('&(&FN(gs))->m', 2, 4), ('&*FN(ga)+3', 1, 12), ('(int*)FN(gc)+1', 3, 4)],
    'pchar': [('(char*)&FN(gs)+3', 2, 3), ('FN(gc)+2', 3, 2), ('&FN(gc)[1]', 3, 1), ('(char*)FN(ga)+5', 1, 5),
              ('FN(gc)', 3, 0), ('(char*)&FN(gs).m+1', 2, 5), ('&FN(gc)[7]-3', 3, 4), ('(char*)(FN(ga)+1)', 1, 4),
              ('%s', STR, 0, 'strlit-address'), ('%s+1', STR, 1, 'strlit-address'), ('&%s[2]', STR, 2, 'strlit-address'),
              ('(char*)FN(gm)[1]+1', 6, 13, 'subarray-address'), ('(char*)&FN(gm)[1][1]', 6, 16, 'subarray-address')],
    'pvoid': [('&FN(gs)', 2, 0), ('&FN(gi)', 0, 0), ('(char*)&FN(gs)+2', 2, 2), ('&FN(ga)[3]', 1, 12),
              ('FN(gc)+5', 3, 5), ('&FN(gs).n', 2, 8), ('(void*)&FN(ga)[1]', 1, 4), ('FN(ga)', 1, 0),
              ('%s', STR, 0, 'strlit-address'), ('&FN(gm)[1]', 6, 12), ('FN(gm)+1', 6, 12),
              ('&FN(gm)[0][1]', 6, 4, 'subarray-address'), ('FN(gm)[1]', 6, 12, 'subarray-address')],
    'pfn': [('FN(fn0)', 4, 0), ('&FN(fn1)', 5, 0), ('FN(fn1)', 5, 0), ('&FN(fn0)', 4, 0), ('*FN(fn0)', 4, 0),
            ('FN(fn1)', 5, 0), ('FN(fn0)', 4, 0), ('&FN(fn1)', 5, 0),
            ('(int(*)(void))FN(fn1)', 5, 0), ('**FN(fn0)', 4, 0), ('&*FN(fn1)', 5, 0)],
}
NPLAIN = 8


# ---- floating formats: exact round-to-nearest-even from a Fraction, bytewise encoding ------------------------
# key: (precision p in bits incl. the integer bit, minimum normal exponent emin, maximum exponent emax, exponent bias)
FMT = {'float': (24, -126, 127, 127), 'double': (53, -1022, 1023, 1023), 'ldouble': (64, -16382, 16383, 16383)}


class Num:
    """Value of an arithmetic constant expression: exact value `frac` (already rounded to the precision of the
    expression's own type), `flt` = the expression has floating type, `negzero` = it is a floating negative zero."""
    __slots__ = ('frac', 'flt', 'negzero')

    def __init__(self, frac, flt, negzero=False):
        self.frac, self.flt, self.negzero = Fraction(frac), flt, negzero


def fround(x, key):
    """Fraction -> (m, e): the value of format `key` nearest to |x| (ties to even), as m * 2**(e - (p-1)) with
    m < 2**p; subnormals have e == emin and m < 2**(p-1).  IEC 60559 roundTiesToEven, which Annex F prescribes for
    conversions and constants and which both reference compilers implement."""
    p, emin, emax, _ = FMT[key]
    a = abs(Fraction(x))
    if a == 0:
        return 0, emin
    e = a.numerator.bit_length() - a.denominator.bit_length()
    if Fraction(2) ** e > a:
        e -= 1
    e = max(e, emin)
    q = a / Fraction(2) ** (e - (p - 1))
    m = q.numerator // q.denominator
    r = q - m
    if r > Fraction(1, 2) or (r == Fraction(1, 2) and m & 1):
        m += 1
    if m == 1 << p:
        m >>= 1
        e += 1
    if e > emax:
        raise Invalid("floating overflow")
    return m, e


def fvalue(x, key):
    """x rounded to format key, as a Fraction."""
    m, e = fround(x, key)
    v = Fraction(m) * Fraction(2) ** (e - (FMT[key][0] - 1))
    return -v if x < 0 else v


def fbits(x, key, neg=None):
    """Object representation of x converted to format key: an int for float (4 bytes) and double (8 bytes, taken as
    a signed 64-bit number like the dump), (low 8 bytes, bytes 8..9) for the x87 extended format."""
    p, emin, emax, bias = FMT[key]
    m, e = fround(x, key)
    sign = 1 if (x < 0 if neg is None else neg) else 0
    if key == 'ldouble':
        be = 0 if m < (1 << 63) else e + bias
        lo = m - (1 << 64) if m >= (1 << 63) else m
        return (lo, (sign << 15) | be)
    if m < (1 << (p - 1)):
        be, fr = 0, m
    else:
        be, fr = e + bias, m - (1 << (p - 1))
    w = (sign << (FMT[key][0] - 1 + (8 if key == 'float' else 11))) | (be << (p - 1)) | fr
    if key == 'double' and w >= (1 << 63):
        w -= 1 << 64
    return w


# Arithmetic constants chosen to tell the three floating formats and single from double rounding apart (style ('na', j)).
# (text, type of the expression, exact mathematical value before it is rounded to that type)
F = Fraction
NUM_ATOMS = [
    ('0.1', 'double', F(1, 10)), ('0.1f', 'float', F(1, 10)), ('0.1L', 'ldouble', F(1, 10)),
    ('1.0L/3', 'ldouble', F(1, 3)), ('-0.3L', 'ldouble', F(-3, 10)), ('1.0f/3', 'float', F(1, 3)), ('1.0/3', 'double', F(1, 3)),
    ('(float)0.1', 'float', F(1, 10)), ('(double)0.1L', 'double', F(1, 10)),
    # just above / below a rounding midpoint of float and of double (exact in long double): a detour through double,
    # or through float, rounds twice and lands on the other neighbour
    ('0x1.000001000000001p0L', 'ldouble', 1 + F(1, 2**24) + F(1, 2**60)),
    ('0x1.000002fffffffffep0L', 'ldouble', 1 + F(3, 2**24) - F(1, 2**63)),
    ('-0x1.000001000000001p3L', 'ldouble', -8 * (1 + F(1, 2**24) + F(1, 2**60))),
    ('0x1.000005000000001p-7L', 'ldouble', (1 + F(5, 2**24) + F(1, 2**60)) / 128),
    ('0x1.0000000000000802p0L', 'ldouble', 1 + F(1, 2**53) + F(1, 2**63)),
    ('0x1.00000000000017fep0L', 'ldouble', 1 + F(3, 2**53) - F(1, 2**63)),
    # exact ties (to even: down, up) of float and double
    ('0x1.000001p0', 'double', 1 + F(1, 2**24)), ('0x1.000003p0', 'double', 1 + F(3, 2**24)),
    ('0x1.00000000000008p0L', 'ldouble', 1 + F(1, 2**53)), ('-0x1.00000000000018p0L', 'ldouble', -1 - F(3, 2**53)),
    # large integers: 2^24+1, 2^53+1, 2^64-1, 2^63-1 as floating constants and as integer constants
    ('16777217.0', 'double', 2**24 + 1), ('9007199254740993.0L', 'ldouble', 2**53 + 1),
    ('18446744073709551615.0L', 'ldouble', 2**64 - 1), ('0x7fffffffffffffffp0L', 'ldouble', 2**63 - 1),
    ('18446744073709549568.0', 'double', 2**64 - 2048),
    ('16777217', 'int', 2**24 + 1), ('-16777219', 'int', -(2**24 + 3)), ('9007199254740993', 'long', 2**53 + 1),
    ('18446744073709551615u', 'ulong', 2**64 - 1), ('4294967295u', 'uint', 2**32 - 1),
    # sign of zero, truncation toward zero, subnormals, largest float
    ('-0.0', 'double', 'negzero'), ('2.9', 'double', F(29, 10)), ('-2.9f', 'float', F(-29, 10)), ('255.9', 'double', F(2559, 10)),
    ('0x1.8p-1070', 'double', F(3, 2) / 2**1070), ('0x1.8p-149', 'double', F(3, 2) / 2**149), ('0x1.fffffep127f', 'float', (2 - F(1, 2**23)) * 2**127),
]
del F
INT_LEAF_SMALL = ('0.1', '-0.3L', '-0.0', '0x1.000001000000001p0L', '0x1.8p-1070', '(float)0.1')
INTSRC = {'int': (32, True), 'uint': (32, False), 'long': (64, True), 'ulong': (64, False)}


def num_atom(j):
    """-> (text, Num, source type key)"""
    text, src, exact = NUM_ATOMS[j]
    if exact == 'negzero':
        return text, Num(0, True, True), src
    if src in INTSRC:
        return text, Num(exact, False), src
    return text, Num(fvalue(exact, src), True), src


def num_atoms_for(t):
    """Indices of the NUM_ATOMS whose conversion to arithmetic leaf type t is defined by C11 (a floating value whose
    integral part does not fit an integer type is undefined, 6.3.1.4; out-of-range to a signed type is
    implementation-defined, 6.3.1.3)."""
    out = []
    isint = SC[t[1]][0] != 'flt'
    for j in range(len(NUM_ATOMS)):
        st = State()
        try:
            v = num_atom(j)[1]
            conv(t, v, st)
        except Invalid:
            continue
        if isint and abs(v.frac) < 2 and NUM_ATOMS[j][0] not in INT_LEAF_SMALL:
            continue            # 0.1, 0.1f, 1.0L/3, ... all truncate to 0 or 1: a few representatives are enough for integer leaves
        if not st.undefined:
            out.append(j)
    return out


def str_hash(text):
    """Content code of a string literal seen through a pointer (same function in the driver's pdec)."""
    h = 0
    for c in text[:8]:
        h = (h * 31 + ord(c)) % 900001
    return 9000000 + h


def ptr_code(base, off):
    return 1000000 * (base + 1) + off


# ---- types ---------------------------------------------------------------
def attrs(t):
    return t[2] if len(t) > 2 else ()


def decl(t, inner):
    k = t[0]
    if k == 'sc':
        return SC[t[1]][3] % inner
    if k == 'bf':
        return (SC[t[1]][3] % inner) + ":%d" % t[2]
    if k == 'arr':
        return decl(t[1], "%s[%s]" % (inner, "" if t[2] is None else t[2]))
    at = attrs(t)
    al = {a[1]: a[2] for a in at if a[0] == 'al'}
    body = ""
    for i, (n, mt) in enumerate(t[1]):
        for a in at:
            if a[0] == 'ubf' and a[1] == i:
                body += (SC[a[2]][3] % "") + ":%d; " % a[3]
        body += ("_Alignas(%d) " % al[i] if i in al else "") + decl(mt, n or "") + "; "
    for a in at:
        if a[0] == 'ubf' and a[1] >= len(t[1]):
            body += (SC[a[2]][3] % "") + ":%d; " % a[3]
    return "%s %s{ %s} %s" % ("struct" if k == 'st' else "union", "__attribute__((packed)) " if ('packed',) in at else "",
                              body, inner)


def sub_ty(t, i):
    if t[0] == 'arr':
        return t[1]
    return t[1][i][1]


def ty_at(t, path):
    for i in path:
        t = sub_ty(t, i)
    return t


def count(t):
    if t[0] == 'arr':
        return t[2]
    if t[0] == 'un':
        return 1
    return len(t[1])


def advance(root, path):
    """Next subobject of the current (braced) object after the one at `path`; None when the object is complete."""
    p = list(path)
    while p:
        ct = ty_at(root, p[:-1])
        if ct[0] == 'un':
            p.pop()
            continue
        p[-1] += 1
        n = count(ct)
        if n is None:
            if p[-1] < MAXIDX:
                return p
            return None
        if p[-1] < n:
            return p
        p.pop()
    return None


def find_member(t, name):
    for i, (n, mt) in enumerate(t[1]):
        if n == name:
            return [i]
        if n is None and mt[0] in ('st', 'un'):
            r = find_member(mt, name)
            if r is not None:
                return [i] + r
    return None


def resolve(t, desig):
    """designator list -> list of index paths (several when ranges are used), in application order."""
    paths = [[]]
    for d in desig:
        if d[0] == 'f':
            if t[0] not in ('st', 'un'):
                raise Invalid("field designator in non-struct")
            r = find_member(t, d[1])
            if r is None:
                raise Invalid("no such member")
            paths = [p + r for p in paths]
            for i in r:
                t = sub_ty(t, i)
        else:
            if t[0] != 'arr':
                raise Invalid("index designator in non-array")
            lo, hi = (d[1], d[1]) if d[0] == 'i' else (d[1], d[2])
            if lo > hi or lo < 0:
                raise Invalid("bad range")
            n = t[2] if t[2] is not None else MAXIDX
            if hi >= n:
                raise Invalid("index out of range")
            paths = [p + [k] for p in paths for k in range(lo, hi + 1)]
            t = t[1]
    return paths


def is_chararr_for(t, s):
    return t[0] == 'arr' and t[1][0] == 'sc' and t[1][1] in CHARLIKE and t[1][1] == s['elem']


# ---- objects ---------------------------------------------------------------
class O:
    __slots__ = ('kids', 'val', 'active', 'dead', 'fromx')


def mk(t):
    o = O()
    o.val = None
    o.active = None
    o.dead = None
    o.fromx = False     # strictly inside a subobject that a struct-valued expression initialized as a whole
    k = t[0]
    if k == 'arr':
        o.kids = [mk(t[1]) for _ in range(t[2] or 0)]
    elif k in ('st', 'un'):
        o.kids = [mk(mt) for _, mt in t[1]]
        if k == 'un':
            o.dead = set()
    else:
        o.kids = None
    return o


def touched(o):
    if o.kids is None:
        return o.val is not None
    return any(touched(k) for k in o.kids)


def reset(o, t):
    n = mk(t)
    o.kids, o.val, o.active, o.dead = n.kids, n.val, n.active, n.dead


class State:
    def __init__(self):
        self.n = 0              # atoms numbered in source order
        self.flags = set()      # features observed while evaluating (override, union-switch, ...)
        self.undefined = None   # reason why the result is not defined by C11 (implementation-defined conversion, ...)


def conv(t, v, st):
    """Value of `v` converted as if by assignment to leaf type t, in the check's dump encoding (a long)."""
    kind, bits, signed, _ = SC[t[1]]
    if t[0] == 'bf':
        bits = t[2]
    if isinstance(v, tuple):
        if kind != 'ptr':
            raise Invalid("pointer to non-pointer")
        if v[1] == STR:
            return v[2]
        return ptr_code(v[1], v[2])
    isflt, neg = None, None
    if isinstance(v, Num):
        if kind == 'ptr':
            raise Invalid("arithmetic constant to pointer")
        isflt, neg, v = v.flt, (True if v.negzero else None), v.frac
    if kind == 'ptr':
        if v != 0:
            raise Invalid("integer to pointer")
        return 0
    if kind == 'bool':
        return 1 if v != 0 else 0
    if kind == 'flt':
        # the object representation: 4 / 8 / 10 significant bytes (see fbits)
        return fbits(Fraction(v), t[1], neg)
    iv = int(v)         # truncation toward zero (6.3.1.4)
    lo, hi = (-(1 << (bits - 1)), (1 << (bits - 1)) - 1) if signed else (0, (1 << bits) - 1)
    if lo <= iv <= hi:
        return iv
    if Fraction(v).denominator != 1 or isflt:
        st.undefined = "floating value out of range of integer type"
        return 0
    if signed:
        st.undefined = "implementation-defined conversion to signed type"
        return 0
    return iv & ((1 << bits) - 1)


def signed_key(t):
    return SC[t[1]][2]


def assign_atom(a, t, st):
    """First time an expression atom lands on a leaf: choose its spelling and value from its ordinal and the leaf type."""
    if 'text' in a:
        return
    n = st.n
    st.n += 1
    a['n'] = n
    kind = SC[t[1]][0]
    base = 11 + n
    style = a.get('style', 'plain')
    if style[0] == 'na':
        if kind == 'ptr' or style[1] >= len(NUM_ATOMS):
            raise Invalid("arithmetic constant for a pointer")
        a['text'], a['val'], src = num_atom(style[1])
        st.flags.add('num:' + (src if src in FMT else 'integer'))
        if kind == 'flt':
            st.flags.add('to:' + t[1])
        elif Fraction(a['val'].frac).denominator != 1 or abs(a['val'].frac) >= 2 ** 53:
            st.flags.add('to:integer')
    elif style[0] == 'iv':
        # byte family: the integer constant itself; for the signed character types a byte >= 128 is written as the
        # value the array element has (b - 256), so that the conversion is defined
        if kind == 'ptr':
            raise Invalid("integer constant for a pointer")
        v = style[1]
        if kind == 'int' and signed_key(t) and v >= 1 << (SC[t[1]][1] - 1) and t[0] == 'sc':
            v -= 1 << SC[t[1]][1]
        a['text'], a['val'] = str(v), v
        st.flags.add('byte-pair')
        if style[2:]:
            st.flags.add('%s:%s' % (style[2], byte_class(style[1], style[2] == 'b2')))
    elif style == 'plain' or style[0] == 'pa':
        if kind == 'ptr':
            if style == 'plain':
                ent = PTR_ATOMS[t[1]][(n + st.salt) % NPLAIN]
            elif style[1] < len(PTR_ATOMS[t[1]]):
                ent = PTR_ATOMS[t[1]][style[1]]
            else:
                raise Invalid("no such address constant for this pointer type")
            txt, b, off = ent[:3]
            if len(ent) > 3:
                st.flags.add(ent[3])
            if b == STR:
                lit = "s%dzq" % n
                a['strlit'] = (txt == '%s')         # the whole initializer is a string-literal token
                a['text'], a['val'] = txt % ('"%s"' % lit), ('p', STR, str_hash(lit[off:]))
            else:
                a['text'], a['val'] = txt, ('p', b, off)
        elif style != 'plain':
            raise Invalid("address constant for a non-pointer")
        elif kind == 'flt' and n % 2 == 0:
            a['text'], a['val'] = "%d.5" % base, Fraction(2 * base + 1, 2)
        else:
            v = base if n % 2 == 0 else -base
            a['text'], a['val'] = str(v), v
    elif style == 'cross':
        if kind == 'ptr':
            a['text'], a['val'] = ("0", 0) if n % 2 == 0 else ("(void*)0", 0)
        elif kind == 'flt':
            a['text'], a['val'] = ("'%c'" % chr(66 + n), 66 + n) if n % 2 == 0 else ("%du" % base, base)
        elif kind == 'bool':
            a['text'], a['val'] = ("0.5", Fraction(1, 2)) if n % 2 == 0 else ("0.0", 0)
        else:
            a['text'], a['val'] = ("%d.75" % base, Fraction(4 * base + 3, 4)) if n % 2 == 0 else ("'%c'" % chr(66 + n), 66 + n)
    else:
        raise Invalid("style")


def assign_str(s, st):
    if 'text' in s:
        return
    n = st.n
    st.n += 1
    s['n'] = n
    pre = CHARLIKE[s['elem']]
    if s.get('u8') and pre == '':
        pre = 'u8'
    body, s['codes'] = str_content(n, s['len'], pre, s.get('var'))
    s['text'] = '%s"%s"' % (pre, body)
    if isinstance(s.get('var'), tuple):
        st.flags.add('byte-pair')
        st.flags.add('string-' + s['var'][3])
        st.flags.add('b1:' + byte_class(s['var'][1], False))
        st.flags.add('b2:' + byte_class(s['var'][2], True))
    elif s.get('var'):
        st.flags.add('string-escape' if s['var'].startswith('esc') else 'string-nul')


STRVARS = ('nul0', 'nulm', 'null', 'nul2', 'esc', 'esc3', 'esc7')
# escape sequences / extended characters of the 'esc' variant: (spelling, element values in a narrow literal [the
# elements of "..." and u8"..." have type char, which is signed here], in a u"" literal [UTF-16: a character beyond the
# BMP is a surrogate pair], in a U"" / L"" literal).
# No spelling is a prefix of a longer escape when a letter a-z or another piece follows (\x7f is followed by a non-hex
# piece by construction, \377 has three octal digits).
ESC_PIECES = [('\\n', [10], [10], [10]), ('\\377', [-1], [255], [255]), ('\u00e9', [-61, -87], [0xe9], [0xe9]), ('\\x7f', [127], [127], [127]),
              ('\\\\', [92], [92], [92]), ('\u20ac', [-30, -126, -84], [0x20ac], [0x20ac]), ('\\"', [34], [34], [34]),
              ('\U0001f600', [-16, -97, -104, -128], [0xd83d, 0xde00], [0x1f600]), ('\\0', [0], [0], [0]), ('\\t', [9], [9], [9])]


BYTE_FORMS = ('oct3', 'cat-oct', 'cat-hex')
# the byte family's alphabet: b1 = what an emitter may write as an escape, b2 = what could continue that escape
BYTES1 = (0, 1, 7, 8, 9, 10, 13, 27, 31, 32, 34, 39, 63, 64, 92, 127, 128, 255)
BYTES2 = (48, 55, 56, 57, 97, 102, 65, 120, 34, 92, 10, 0, 1, 255)


def byte_class(b, second):
    if second:
        return ('odigit' if b in (48, 55) else 'digit89' if b in (56, 57) else 'hexletter' if b in (97, 102, 65) else 'x' if b == 120
                else 'quote' if b in (34, 92) else 'newline' if b == 10 else 'nul' if b == 0 else 'ctl' if b < 32 else 'high')
    return 'nul' if b == 0 else 'ctl' if b < 32 else 'high' if b >= 127 else 'punct' if b in (34, 39, 63, 92) else 'print'



def byte_spelling(b, form, last):
    """Spelling of byte b inside a string literal.  Printable ASCII is written as itself (\" and \\ escaped); every
    other byte as an escape sequence: 'oct3' three octal digits (never continued by the next character); 'cat-oct' /
    'cat-hex' the SHORTEST octal / hexadecimal escape - which the next character could continue, so the literal is
    closed right after it and the rest follows in an adjacent literal (5.1.1.2: escape sequences are converted in phase
    5, adjacent literals are concatenated in phase 6).  -> (text, must the literal be closed after it)"""
    if b == 34:
        return '\\"', False
    if b == 92:
        return '\\\\', False
    if b == 63:
        return '\\?', False         # no trigraph can form
    if 32 <= b < 127:
        return chr(b), False
    if form == 'oct3':
        return '\\%03o' % b, False
    if form == 'cat-oct':
        return '\\%o' % b, True
    return '\\x%x' % b, True


def byte_pair_body(letters, L, pre, var):
    """Byte family: elements [b1, b2] (L == 2), [b1, b2, letter] (L == 3), [letter, b1, b2, letters..] (L >= 4); the
    element values are those of a narrow literal (type char: bytes >= 128 are negative).  In the cat forms the literal
    is split after b1 ALWAYS (`"v\1" "23"`), so that adjacent-literal concatenation occurs for every pair."""
    _, b1, b2, form = var
    if pre not in ('', 'u8') or L < 2 or form not in BYTE_FORMS:
        raise Invalid("byte pair")
    if pre == 'u8' and (b1 >= 128 or b2 >= 128):
        raise Invalid("byte >= 128 in u8 literal")
    seq = [b1, b2] + [ord(c) for c in letters[:L - 2]] if L < 4 else [ord(letters[0]), b1, b2] + [ord(c) for c in letters[1:L - 2]]
    pos1 = 0 if L < 4 else 1
    body = ""
    for i, b in enumerate(seq):
        sp, close = byte_spelling(b, form, i == len(seq) - 1)
        body += sp
        if i < len(seq) - 1 and (close or (i == pos1 and form != 'oct3')):
            body += '" %s"' % pre
    return body, [b - 256 if b >= 128 else b for b in seq]


def str_content(n, L, pre, var):
    """Body and element values (before conversion to the array's element type) of string atom number n with L elements.
    var None: letters; 'nul0' / 'nulm' / 'null': an embedded \\0 at the first / middle / last position; 'nul2': at
    positions 0 and 1; 'esc' / 'esc3' / 'esc7': escape sequences and extended characters, starting with piece 0 / 3 / 7 of
    ESC_PIECES (a multibyte character of a narrow literal counts one element per byte, a character beyond the BMP two
    elements of a u"" literal)."""
    letters = [chr(97 + (n * 3 + j) % 26) for j in range(L)]
    if isinstance(var, tuple):
        return byte_pair_body(letters, L, pre, var)
    if var is None:
        return "".join(letters), [ord(c) for c in letters]
    if var in ('esc', 'esc3', 'esc7'):
        col = {'u': 2, 'U': 3, 'L': 3}.get(pre, 1)
        body, codes, k = "", [], int(var[3:] or 0)        # first piece: ESC_PIECES[0], [3], [7] (independent of n)
        while len(codes) < L:
            for d in range(len(ESC_PIECES)):
                ent = ESC_PIECES[(k + d) % len(ESC_PIECES)]
                sp, cs = ent[0], ent[col]
                if len(codes) + len(cs) <= L and not (body.endswith('\\x7f') and sp[0] != '\\'):
                    break
            else:
                raise Invalid("no escape piece fits")
            body += sp
            codes += cs
            k += d + 1
        return body, codes
    if var not in STRVARS:
        raise Invalid("string variant")
    pos = {'nul0': [0], 'nulm': [L // 2], 'null': [L - 1], 'nul2': [0, 1]}[var]
    pos = [i for i in pos if 0 <= i < L]
    if not pos:
        raise Invalid("no room for an embedded NUL")
    return "".join('\\0' if j in pos else c for j, c in enumerate(letters)), [0 if j in pos else ord(c) for j, c in enumerate(letters)]


def x_leaves(t, acc=""):
    """Leaves a variable of struct/union type t is set up through: (accessor, leaf type); first member of a union."""
    k = t[0]
    if k in ('sc', 'bf'):
        return [(acc, t)]
    if k == 'arr':
        if t[2] is None:
            raise Invalid("flexible array member in the type of a struct expression")
        out = []
        for i in range(t[2]):
            out += x_leaves(t[1], "%s[%d]" % (acc, i))
        return out
    out = []
    for n, mt in (t[1][:1] if k == 'un' else t[1]):
        if n is None:
            raise Invalid("anonymous member in the type of a struct expression (the type needs a tag)")
        out += x_leaves(mt, acc + "." + n)
    return out


def assign_x(x, t, st):
    """Struct-valued expression: the variable y<n>; its leaves hold 40 + 7n + k (bit-fields: reduced into their range),
    distinct from the 11 + n of the scalar atoms."""
    if 'text' in x:
        return
    n = st.n
    st.n += 1
    x['n'] = n
    x['text'] = "y%d" % n
    x['setup'] = []
    for k, (acc, lt) in enumerate(x_leaves(t)):
        if SC[lt[1]][0] == 'ptr':
            raise Invalid("pointer leaf in the type of a struct expression")
        v = 40 + 7 * n + k
        if lt[0] == 'bf':
            v = 1 + v % ((1 << (lt[2] - 1)) - 1) if lt[2] > 2 else 1
        if SC[lt[1]][0] == 'bool':
            v = 1
        x['setup'].append((acc, lt, v))


def fill_x(o, t, x, st):
    vals = {acc: (lt, v) for acc, lt, v in x['setup']}

    def go(o, t, acc):
        k = t[0]
        o.fromx = 'in' if acc else 'root'
        if k in ('sc', 'bf'):
            o.val = conv(t, vals[acc][1], st)
        elif k == 'arr':
            for i, kid in enumerate(o.kids):
                go(kid, t[1], "%s[%d]" % (acc, i))
        elif k == 'un':
            o.active = 0
            go(o.kids[0], t[1][0][1], acc + "." + t[1][0][0])
        else:
            for kid, (n, mt) in zip(o.kids, t[1]):
                go(kid, mt, acc + "." + n)
    go(o, t, "")


def x_atoms(ini):
    """The struct-expression atoms of an evaluated initializer, in source order."""
    if ini['k'] == 'x':
        return [ini]
    if ini['k'] == 'l':
        return [a for _, sub in ini['items'] for a in x_atoms(sub)]
    return []


def decl_tagged(t, inner, tags):
    """Like decl(), but every struct/union type gets a tag (T0, T1, ..): defined where it occurs first, referred to by
    its tag afterwards (`tags`: type -> tag, filled in).  Used for cases with struct-valued expressions, whose variables
    need the type of a member."""
    k = t[0]
    if k in ('sc', 'bf'):
        return decl(t, inner)
    if k == 'arr':
        return decl_tagged(t[1], "%s[%s]" % (inner, "" if t[2] is None else t[2]), tags)
    kw = "struct" if k == 'st' else "union"
    if t in tags:
        return "%s %s %s" % (kw, tags[t], inner)
    if attrs(t):
        raise Invalid("attributes in the type of a struct expression")
    tags[t] = "T%d" % len(tags)
    tag = tags[t]
    body = ""
    for n, mt in t[1]:
        if n is None:
            raise Invalid("anonymous member in a tagged type")
        body += decl_tagged(mt, n, tags) + "; "
    return "%s %s { %s} %s" % (kw, tag, body, inner)


def step(o, t, i, st):
    k = t[0]
    if k == 'arr':
        if t[2] is None:
            if i >= MAXIDX:
                raise Invalid("index bound")
            while len(o.kids) <= i:
                o.kids.append(mk(t[1]))
        elif i >= t[2]:
            raise Invalid("index out of range")
        return o.kids[i], t[1]
    if k == 'st':
        return o.kids[i], t[1][i][1]
    if k == 'un':
        if o.active != i:
            if o.fromx == 'in':
                st.undefined = "initializer for a part of a subobject that a struct-valued expression initialized"
            if o.fromx == 'root':
                # { yU, .u.l = 1 }: whatever becomes of the rest, the later initializer for u.l applies (6.7.9p19)
                st.flags.add('union-expr-redesignated')
            if o.active is not None:
                o.dead.add(o.active)
                st.flags.add('union-switch')
                fresh = mk(t)
                o.kids = fresh.kids
            if i in o.dead:
                st.undefined = "union member re-activated after another member was initialized"
            o.active = i
        return o.kids[i], t[1][i][1]
    raise Invalid("descent into scalar")


def direct(t, ini):
    if ini['k'] == 'l':
        return True
    if ini['k'] == 'x':
        return t == ini['ty']
    if ini['k'] == 's':
        return is_chararr_for(t, ini)
    return t[0] in ('sc', 'bf')


def apply_string(o, t, s, st):
    assign_str(s, st)
    if touched(o):
        st.flags.add('override-agg')
    reset(o, t)
    L = s['len']
    n = t[2]
    if n is None:
        n = L + 1
        o.kids = [mk(t[1]) for _ in range(n)]
    if L > n:
        raise Invalid("string too long")
    for i in range(n):
        o.kids[i].val = conv(t[1], s['codes'][i], st) if i < L else 0
    st.flags.add('string')


def apply_init(o, t, ini, st):
    """Initialize the whole object o of type t by ini."""
    k = t[0]
    if o.fromx == 'in':
        # { y, .i.a = 1 }: whether the rest of the subobject keeps the value of y is not settled (6.7.9p19 and its
        # footnote, DR 413; gcc drops y) - not judged
        st.undefined = "initializer for a part of a subobject that a struct-valued expression initialized"
    if ini['k'] == 'x':
        if k not in ('st', 'un') or t != ini['ty']:
            raise Invalid("struct expression for an object of another type")
        assign_x(ini, t, st)
        if touched(o):
            st.flags.add('override-agg')
        reset(o, t)
        fill_x(o, t, ini, st)
        st.flags.add('struct-expr')
        return
    if ini['k'] == 'a':
        if k not in ('sc', 'bf'):
            raise Invalid("expression for aggregate")
        assign_atom(ini, t, st)
        if o.val is not None:
            st.flags.add('override')
        o.val = conv(t, ini['val'], st)
        return
    if ini['k'] == 's':
        if not is_chararr_for(t, ini):
            raise Invalid("string for non-char-array")
        apply_string(o, t, ini, st)
        return
    items = ini['items']
    if not items:
        raise Invalid("empty braces")
    if k in ('sc', 'bf'):
        if len(items) != 1 or items[0][0] is not None or items[0][1]['k'] != 'a':
            raise Invalid("bad braces around scalar")
        st.flags.add('brace-scalar')
        apply_init(o, t, items[0][1], st)
        return
    if k == 'arr' and len(items) == 1 and items[0][0] is None and items[0][1]['k'] == 's' and is_chararr_for(t, items[0][1]):
        st.flags.add('brace-string')
        apply_string(o, t, items[0][1], st)
        return
    if touched(o):
        st.flags.add('override-agg')
    reset(o, t)
    run_list(o, t, items, st)


def run_list(o, t, items, st):
    cursor = [0]
    after_range = False
    popped = False      # the cursor left an inner aggregate that was entered by a nested designator
    for desig, ini in items:
        if not desig and popped and ini['k'] == 's':
            # gcc applies such a string to the enclosing array of the designated element, 6.7.9p17 reads as "next subobject"
            st.undefined = "string literal following a nested designator that ended an inner aggregate"
        if not desig and after_range:
            st.flags.add('range-continued')     # positional continuation after a GNU range designator
        if desig:
            after_range = any(d[0] == 'r' for d in desig)
            paths = resolve(t, desig)
            st.flags.add('designator')
            if len(desig) > 1:
                st.flags.add('nested-designator')
            if len(paths) > 1:
                st.flags.add('range')
        else:
            if cursor is None:
                raise Invalid("excess elements")
            paths = [cursor]
            if cursor != [0] and any(d for d, _ in items):
                pass
        endp = None
        for p in paths:
            co, ct = o, t
            for i in p:
                co, ct = step(co, ct, i, st)
            p = list(p)
            while not direct(ct, ini):
                if ct[0] not in ('arr', 'st', 'un'):
                    raise Invalid("type mismatch")
                nt = sub_ty(ct, 0)
                if ini['k'] == 'x':
                    # the expression is not of the type of this aggregate: it initializes its first member (6.7.9p13/p20)
                    st.flags.add('struct-expr-in-elided-array' if ct[0] == 'arr' else 'struct-expr-in-elided-struct')
                if ct[0] == 'arr' and ct[2] is None:
                    raise Invalid("brace elision into array of unknown bound")
                co, ct = step(co, ct, 0, st)
                p.append(0)
                st.flags.add('elision')
            apply_init(co, ct, ini, st)
            if not desig and popped and ini.get('strlit'):
                # same gcc reading as above for a string literal that (by 6.7.9p17) initializes a pointer
                st.undefined = "string literal following a nested designator that ended an inner aggregate"
            endp = p
        cursor = advance(t, endp)
        if desig:
            popped = len(desig) > 1 and cursor is not None and len(cursor) < len(endp)


def evaluate(t, ini):
    st = State()
    st.salt = sum(map(ord, repr(t))) % 8      # deterministic variation of the address constants used
    root = mk(t)
    if ini['k'] == 'l' and t[0] in ('arr', 'st', 'un') and not (
            t[0] == 'arr' and len(ini['items']) == 1 and ini['items'][0][0] is None and ini['items'][0][1]['k'] == 's'
            and is_chararr_for(t, ini['items'][0][1])):
        run_list(root, t, ini['items'], st)
    else:
        apply_init(root, t, ini, st)
    return root, st


def leaves(o, t, acc, anon=False):
    """[(accessor suffix, leaf type, expected dump value)] ; unions: only the active member (all members when the
    union was never mentioned: all-zero bits)."""
    k = t[0]
    if k == 'sc' and t[1] == 'ldouble':
        lo, hi = o.val if o.val is not None else (0, 0)
        return [(acc, ('sc', 'ldouble', 'lo'), lo), (acc, ('sc', 'ldouble', 'hi'), hi)]
    if k in ('sc', 'bf'):
        return [(acc, t, o.val or 0)]
    out = []
    if k == 'arr':
        for i, kid in enumerate(o.kids):
            out += leaves(kid, t[1], "%s[%d]" % (acc, i))
        return out
    for i, (n, mt) in enumerate(t[1]):
        if k == 'un' and o.active is not None and o.active != i:
            continue
        out += leaves(o.kids[i], mt, acc + ("." + n if n else ""), n is None)
    return out


# ---- rendering ---------------------------------------------------------------
def render_desig(desig):
    s = ""
    for d in desig:
        if d[0] == 'f':
            s += "." + d[1]
        elif d[0] == 'i':
            s += "[%d]" % d[1]
        else:
            s += "[%d ... %d]" % (d[1], d[2])
    return s


def render(ini):
    if ini['k'] in ('a', 's', 'x'):
        return ini['text']
    parts = []
    for desig, sub in ini['items']:
        parts.append((render_desig(desig) + " = " if desig else "") + render(sub))
    return "{ " + ", ".join(parts) + (", }" if ini.get('tc') else " }")


def thaw(x, tc=False):
    """generator tuple -> mutable initializer.  ('a', style) | ('s', elem, len, u8[, variant]) | ('l', items, tc)"""
    if x[0] == 'a':
        return {'k': 'a', 'style': x[1]}
    if x[0] == 'x':
        return {'k': 'x', 'ty': x[1]}
    if x[0] == 's':
        return {'k': 's', 'elem': x[1], 'len': x[2], 'u8': x[3], 'var': x[4] if len(x) > 4 else None}
    return {'k': 'l', 'items': [(list(d) if d else None, thaw(s, tc)) for d, s in x[1]], 'tc': x[2] or tc}
