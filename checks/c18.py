"""C18 Source positions survive preprocessing.

Enumerated: every *forest of line items* with exactly n nodes, for the bounds listed in run() and recorded in the evidence
(`bounds_completed`).  quick: n <= 3 over the full alphabet in five encodings, n = 4 in LF; diagnostics and
execution for n <= 2, .loc for n <= 3.  thorough: n <= 4 over the full alphabet, n = 5 over MID, n = 6 over REDUCED, a sixth encoding,
diagnostics, .loc and execution for n <= 3.
Leaf items: code line with a probe | blank line | `//` comment line | `//` comment continued by backslash-newline | block
comment over 1/2/3 physical lines with a probe before and after it | logical line spliced with backslash-newline over 2/3
physical lines with a probe on every physical line | function-like macro definition + invocation spread over 3 lines
with a probe in every argument and one after the closing parenthesis | object-like macro whose body is a probe, invoked
on the next line | `#line N` | `#line N "f"` | `# N "f"`.  Inner item: `#include "h<j>.h"` whose header is again a forest
(<= 3 physical lines, nesting depth <= 2); an include counts 1 + the nodes of its header.  Encodings of a file set:
{LF, CRLF} x {no BOM, BOM}, LF without a terminator on the last line of every file, and (thorough) alternating CR LF / LF.

Observables (what each probe must show):
  E  `vpK(__LINE__, __FILE__);` read back from `-cc1 -E` output by re-lexing (models/pplex.py)
  X  the same values printed by the compiled and executed program
  D  one probe at a time is replaced by an erroneous token (invalid byte for the tokenizer, macro arity error for the
     preprocessor, undeclared identifier for the parser): `file:line:` prefix of the first diagnostic and the echoed line
  S  `.loc` record in force at the instruction that mentions symbol vpK, file number resolved through the `.file` table;
     all `.loc` records between two consecutive probes must belong to one of the two statements
Oracle: models/c18_position.py (physical line = 1 + LFs before the token in the original bytes; C11 6.10.4 presumed line
and name).  `gcc -E` is the second oracle for E/X: a probe is judged only where model and gcc agree.  For D and S a
location is accepted if it is the physical (file, line) or the presumed (file, line) pair - gcc uses the latter -
anything else, including a mixture of the two, is a deviation.
"""
import functools, os, re, shutil
from vlib import core
from models import pplex
from models import c18_position as M

LEVEL = "exploration"
BUDGET = {"quick": 900, "thorough": 3000}

LEAVES = ["code", "blank", "slc", "slcs", "bc1", "bc2", "bc3", "sp2", "sp3", "mac", "macl", "line", "linef", "gnu"]
REDUCED = ["code", "blank", "bc2", "sp2", "line"]          # alphabet of the deepest thorough bound
MID = ["code", "blank", "bc2", "sp2", "sp3", "mac", "line", "linef"]   # alphabet of the 5-node bound of the thorough tier
NLINES = {"code": 1, "blank": 1, "slc": 1, "slcs": 2, "bc1": 1, "bc2": 2, "bc3": 3, "sp2": 2, "sp3": 3, "mac": 4, "macl": 2,
          "line": 1, "linef": 1, "gnu": 1}
HDR_MAX_LINES = 3
MAXPROBE = 48
ENCS = {"lf": (b"\n", b""), "crlf": (b"\r\n", b""), "lf+bom": (b"\n", M.BOM), "crlf+bom": (b"\r\n", M.BOM),
        "mixed": (None, b""), "lf-noeof": (b"\n", b"")}      # lf-noeof: the last line of every file has no terminator
ERRKINDS = ("lex", "pp", "parse")
PRE_H = ("".join("void vp%d(int, char *); " % i for i in range(1, MAXPROBE + 1)) +
         "\n#define VPA(x) x\nextern int vpsink; void VPFN(void) {\n")
PRE_H_NAME = "vppre.h"


# ---------------------------------------------------------------------------------------------------------------
# enumeration
@functools.lru_cache(None)
def forests(n, depth, maxlines, alphabet):
    """All forests with exactly n nodes; `maxlines` < 0 = unbounded (main file)."""
    if n == 0:
        return ((),)
    res = []
    for leaf in alphabet:
        ln = NLINES[leaf]
        if 0 <= maxlines < ln:
            continue
        for rest in forests(n - 1, depth, maxlines - ln if maxlines >= 0 else -1, alphabet):
            res.append((leaf,) + rest)
    if depth > 0 and (maxlines < 0 or maxlines >= 1):
        for k in range(0, n):
            for hdr in forests(k, depth - 1, HDR_MAX_LINES, alphabet):
                for rest in forests(n - 1 - k, depth, maxlines - 1 if maxlines >= 0 else -1, alphabet):
                    res.append((("inc", hdr),) + rest)
    return tuple(res)


def fstr(forest):
    return " ".join(x if isinstance(x, str) else "inc[%s]" % fstr(x[1]) for x in forest)


# ---------------------------------------------------------------------------------------------------------------
# rendering
class Render:
    """mode 'E': probes spelled vpK(__LINE__, __FILE__);   'S': vpK(0, 0);   'D': as S, probe `target` erroneous."""

    def __init__(self, mode, target=0, errkind=None):
        self.mode, self.target, self.errkind = mode, target, errkind
        self.files = {}
        self.meta = {}
        self.npid = self.ndir = self.nhdr = self.nmac = 0

    def P(self, kind, tail=False):
        self.npid += 1
        pid = self.npid
        self.meta[pid] = {"kind": kind, "tail": tail}
        if self.mode == "E":
            return "vp%d(__LINE__, __FILE__);" % pid
        if self.mode == "D" and pid == self.target:
            if self.errkind == "lex":
                return "vp%d(\x01 vperr%d, 0);" % (pid, pid)
            if self.errkind == "pp":
                return "vp%d(VPA(vperr%d, 2), 0);" % (pid, pid)
            return "vp%d(vperr%d, 0);" % (pid, pid)
        return "vp%d(0, 0);" % pid

    def file(self, name, forest):
        lines = []
        self.files[name] = lines
        for it in forest:
            if not isinstance(it, str):
                self.nhdr += 1
                h = "h%d.h" % self.nhdr
                lines.append('#include "%s"' % h)
                self.file(h, it[1])
            elif it == "code":
                lines.append(self.P("code"))
            elif it == "blank":
                lines.append("")
            elif it == "slc":
                lines.append("// vp0(__LINE__, __FILE__); comment")
            elif it == "slcs":
                lines += ["// comment continued by a backslash \\", "vp0(__LINE__, __FILE__); still the comment"]
            elif it == "bc1":
                lines.append(self.P("block-comment") + " /* vp0(0, 0); */ " + self.P("block-comment"))
            elif it == "bc2":
                lines += [self.P("block-comment") + " /* c", "vp0(0, 0); */ " + self.P("block-comment")]
            elif it == "bc3":
                lines += [self.P("block-comment") + " /* c", "vp0(0, 0);", "c */ " + self.P("block-comment")]
            elif it == "sp2":
                lines += [self.P("spliced-head") + " \\", self.P("spliced-line", True)]
            elif it == "sp3":
                lines += [self.P("spliced-head") + " \\", self.P("spliced-line", True) + " \\", self.P("spliced-line", True)]
            elif it == "mac":
                lines += ["#define VPM(a,b,c) a b c", "VPM(" + self.P("macro-args") + ",", "  " + self.P("macro-args") + ",",
                          "  " + self.P("macro-args") + ") " + self.P("after-macro")]
            elif it == "macl":
                self.nmac += 1
                if self.mode == "E":
                    lines += ["#define VPL%d %s" % (self.nmac, self.P("macro-body")), "VPL%d" % self.nmac]
                else:
                    lines += ["#define VPL%d" % self.nmac, "VPL%d %s" % (self.nmac, self.P("after-macro"))]
            elif it in ("line", "linef", "gnu"):
                self.ndir += 1
                n = 100 * self.ndir + 11
                lines.append({"line": "#line %d" % n, "linef": '#line %d "vpf%d.c"' % (n, self.ndir),
                              "gnu": '# %d "vpg%d.c"' % (n, self.ndir)}[it])
            else:
                raise core.HarnessError("unknown item " + it)


def render(forest, mode, target=0, errkind=None):
    r = Render(mode, target, errkind)
    r.file("t.c", forest)
    r.files["t.c"].append("}")
    if r.npid > MAXPROBE:
        raise core.HarnessError("too many probes")
    return r


def encode(lines, enc):
    eol, bom = ENCS[enc]
    if eol is None:        # alternating CRLF / LF
        return bom + b"".join(l.encode("latin-1") + (b"\r\n" if i % 2 == 0 else b"\n") for i, l in enumerate(lines))
    data = bom + b"".join(l.encode("latin-1") + eol for l in lines)
    return data[:-len(eol)] if enc == "lf-noeof" else data


def encode_all(r, enc):
    return {name: encode(lines, enc) for name, lines in r.files.items()}


def write_files(d, files):
    os.makedirs(d, exist_ok=True)
    for name, data in files.items():
        with open(os.path.join(d, name), "wb") as f:
            f.write(data)


def construct(meta, info):
    if info["directive"]:
        return "spliced-line+after-#line" if meta["tail"] else "after-#line"
    return meta["kind"]


def file_class(obs, info):
    if obs is None:
        return "unreadable"
    o = M.norm(obs)
    if o == M.norm(info["presfile"]):
        return "expected-file"
    if o == M.norm(info["file"]):
        return "physical-file"
    if o == "t.c":
        return "main-file"
    return "other-file"


class Acc:
    """Per-shard accumulator: counters and, per signature, the count and the first example."""

    def __init__(self):
        self.n = {}
        self.dev = {}
        self.kinds = set()

    def count(self, k, v=1):
        self.n[k] = self.n.get(k, 0) + v

    def deviation(self, sig, desc, files, replay):
        if sig in self.dev:
            self.dev[sig][0] += 1
        else:
            self.dev[sig] = [1, desc, files, replay]

    def result(self):
        return self.n, self.dev, sorted(self.kinds)


def support_files():
    out = {}
    for n in ("pplex.py", "c18_position.py"):
        out[n] = open(os.path.join(core.VERIF, "models", n), "rb").read()
    return out


def fs_all(files, sup):
    fs = dict(files); fs.update(sup)
    return fs


def spec(pairs):
    return ",".join("%s:%d" % p for p in sorted(set(pairs)))


# ---------------------------------------------------------------------------------------------------------------
# E: __LINE__/__FILE__ in -E output, gcc -E as second oracle
def gcc_E(wd, entries):
    """entries: [(key, dirname)] -> {key: {pid: (line, file)}} or None when gcc failed."""
    drv = os.path.join(wd, "vpgcc.c")
    with open(drv, "w") as f:
        for i, (key, d) in enumerate(entries):
            f.write('VPCASE(%d)\n#include "%s/t.c"\n' % (i, d))
    st, out, err = core.run_limited(["gcc", "-E", "-P", "-w", "vpgcc.c"], cwd=wd, timeout=600)
    if st != 0:
        return None
    toks = pplex.lex(out)
    res, cur, start = {}, None, 0
    bounds = []
    for i, t in enumerate(toks):
        if t == "VPCASE" and toks[i + 1:i + 2] == ["("]:
            bounds.append((i, int(toks[i + 2])))
    for bi, (pos, idx) in enumerate(bounds):
        end = bounds[bi + 1][0] if bi + 1 < len(bounds) else len(toks)
        key, d = entries[idx]
        got = {}
        dup = False
        for pid, line, fn in M.observe_E(toks[pos + 4:end]):
            if fn is not None:
                fn = M.norm(fn)
                if fn.startswith(d + "/"):
                    fn = fn[len(d) + 1:]
            if pid in got:
                dup = True
            got[pid] = (line, fn)
        res[key] = None if dup else got
    return res


def _shard_E(args):
    chibicc, wd, sidx, cases, encs_small, encs_big, small_n, gcc_encs = args
    acc = Acc()
    os.makedirs(wd, exist_ok=True)
    sup = None
    prepared = []
    gcc_entries = []
    for ci, (n, forest) in enumerate(cases):
        r = render(forest, "E")
        encs = encs_small if n <= small_n else encs_big
        exp0 = None
        for enc in encs:
            files = encode_all(r, enc)
            exp = M.expected(files)
            sig_exp = [(p, i["pres"], i["presfile"], i["phys"], i["file"]) for p, i in exp]
            if exp0 is None:
                exp0 = sig_exp
            elif exp0 != sig_exp:
                raise core.HarnessError("model depends on the encoding: %s %s" % (fstr(forest), enc))
            if sorted(p for p, i in exp) != list(range(1, r.npid + 1)):
                raise core.HarnessError("model lost a probe: %s" % fstr(forest))
            d = "c%d_%s" % (ci, enc.replace("+", ""))
            write_files(os.path.join(wd, d), files)
            prepared.append((ci, enc, d, r, files, exp))
            if enc in gcc_encs or n <= small_n:
                gcc_entries.append(((ci, enc), d))
    gcc = gcc_E(wd, gcc_entries) if gcc_entries else {}
    if gcc is None:
        acc.count("ref_rejected", len(gcc_entries))
        gcc = {}
    for ci, enc, d, r, files, exp in prepared:
        n, forest = cases[ci]
        cd = os.path.join(wd, d)
        st, out, err = core.run_limited([chibicc, "-cc1", "-E", "-cc1-input", "t.c", "t.c"], cwd=cd, timeout=120)
        acc.count("runs_E")
        if st == "timeout":
            acc.count("timeouts")
            continue
        g = gcc.get((ci, enc))
        if g is None:
            g = gcc.get((ci, "lf"))
        if st != 0:
            acc.deviation("C18|-E|valid-file-%s" % ("killed" if isinstance(st, int) and st < 0 else "rejected"),
                          "[%s] %s: -E fails (status %s): %s" % (fstr(forest), enc, st, err.strip().splitlines()[:1]),
                          dict(files), "$CHIBICC -cc1 -E -cc1-input t.c t.c >/dev/null 2>&1 && exit 0; exit 1")
            continue
        obs = M.observe_E(pplex.lex(out))
        if [p for p, l, f in obs] != [p for p, i in exp]:
            acc.deviation("C18|-E|probe-sequence-differs", "[%s] %s: probes in -E output %s, expected %s"
                          % (fstr(forest), enc, [p for p, l, f in obs], [p for p, i in exp]), dict(files),
                          "$CHIBICC -cc1 -E -cc1-input t.c t.c > out.txt 2>/dev/null || exit 1\n"
                          "python3 -c \"import pplex,c18_position as M,sys; got=[p for p,l,f in M.observe_E(pplex.lex(open('out.txt').read()))]; "
                          "sys.exit(0 if got==%r else 1)\"" % [p for p, i in exp])
            continue
        for (pid, line, fn), (_, info) in zip(obs, exp):
            meta = r.meta[pid]
            fn = M.norm(fn, cd) if fn is not None else None
            want = (info["pres"], M.norm(info["presfile"]))
            if g is None or pid not in g:
                acc.count("unjudged_no_reference")
                continue
            if g[pid] != want:
                acc.count("skipped_unspecified" if meta["kind"] in ("macro-args", "macro-body") else "oracle_disagreements")
                continue
            acc.count("judged_E")
            acc.kinds.add((construct(meta, info), enc))
            nontrivial = info["pres"] != 1
            if nontrivial:
                acc.count("nontrivial_E")
            if line != info["pres"]:
                if sup is None:
                    sup = support_files()
                fs = dict(files); fs.update(sup)
                acc.deviation("C18|%s|__LINE__|observed=%s" % (construct(meta, info), M.line_class(line, info)),
                              "[%s] %s: probe vp%d (%s, physical line %d of %s) has __LINE__ == %s in -E output; C11/gcc: %d"
                              % (fstr(forest), enc, pid, meta["kind"], info["phys"], info["file"], line, info["pres"]), fs,
                              "$CHIBICC -cc1 -E -cc1-input t.c t.c > out.txt 2>/dev/null || exit 0\n"
                              "python3 c18_position.py E out.txt %d '%s'" % (pid, spec([(info["presfile"], info["pres"])])))
            if fn is None or M.norm(fn) != want[1]:
                if sup is None:
                    sup = support_files()
                fs = dict(files); fs.update(sup)
                acc.deviation("C18|%s|__FILE__|observed=%s" % (construct(meta, info) + ("" if info["file"] == "t.c" else "+in-header"),
                                                               file_class(fn, info)),
                              "[%s] %s: probe vp%d in %s has __FILE__ == %r in -E output; C11/gcc: %r"
                              % (fstr(forest), enc, pid, info["file"], fn, info["presfile"]), fs,
                              "$CHIBICC -cc1 -E -cc1-input t.c t.c > out.txt 2>/dev/null || exit 0\n"
                              "python3 c18_position.py E out.txt %d '%s' | grep -q \"observed ('%s'\" && exit 0; exit 1"
                              % (pid, spec([(info["presfile"], info["pres"])]), M.norm(info["presfile"])))
    shutil.rmtree(wd, ignore_errors=True)
    return acc.result()


# ---------------------------------------------------------------------------------------------------------------
# helpers shared by the compiling modes
def acceptable(info):
    return {(M.norm(info["file"]), info["phys"]), (M.norm(info["presfile"]), info["pres"])}


def position_class(fn, line, info):
    """Deviation class of an observed (file, line) pair that is not acceptable."""
    lc = M.line_class(line, info)
    fc = file_class(fn, info)
    if lc == "physical-line" and fc == "expected-file" and info["directive"]:
        return "presumed-file:physical-line"
    if fc == "expected-file" or (fc == "physical-file" and lc in ("physical-line",)):
        return lc
    return "%s:%s" % (fc, lc)


def cc1_cmd(extra=""):
    return "$CHIBICC -cc1 -DVPFN=vpfn -include %s %s -cc1-input t.c" % (PRE_H_NAME, extra)


def compile_args(chibicc, out):
    return [chibicc, "-cc1", "-DVPFN=vpfn", "-include", PRE_H_NAME, "-cc1-input", "t.c", "-cc1-output", out, "t.c"]


# ---------------------------------------------------------------------------------------------------------------
# D: diagnostics
def _shard_D(args):
    chibicc, wd, sidx, cases, encs_small, encs_big, small_n, kinds_small, kinds_big = args
    acc = Acc()
    sup = support_files()
    for ci, (n, forest) in enumerate(cases):
        nprobes = render(forest, "S").npid
        for enc in (encs_small if n <= small_n else encs_big):
            for kind in (kinds_small if n <= small_n else kinds_big):
                for target in range(1, nprobes + 1):
                    r = render(forest, "D", target, kind)
                    files = encode_all(r, enc)
                    files[PRE_H_NAME] = PRE_H.encode()
                    exp = dict(M.expected(files))
                    info, meta = exp[target], r.meta[target]
                    if kind == "pp" and meta["kind"] == "macro-args":
                        # where inside an enclosing multi-line invocation a preprocessing error is reported is the implementation's
                        # choice (gcc: the closing parenthesis of the outer invocation; the model: the token) -> not judged
                        acc.count("skipped_unspecified"); continue
                    shutil.rmtree(wd, ignore_errors=True)
                    write_files(wd, files)
                    if n <= 1:      # second oracle for the model's presumed position: where does gcc report this error?
                        gs, go, ge = core.run_limited(["gcc", "-fsyntax-only", "-DVPFN=vpfn", "-include", PRE_H_NAME, "t.c"], cwd=wd, timeout=300)
                        gm = re.search(r"^(.+?):(\d+):(?:\d+:)? (?:fatal )?error:", ge, re.M)
                        if gs != "timeout":
                            acc.count("gcc_diagnostics_compared")
                            if not gm or (M.norm(gm.group(1)), int(gm.group(2))) != (M.norm(info["presfile"]), info["pres"]):
                                acc.count("oracle_disagreements")
                                continue
                    st, out, err = core.run_limited(compile_args(chibicc, "t.s"), cwd=wd, timeout=120)
                    acc.count("runs_D")
                    if st == "timeout":
                        acc.count("timeouts"); continue
                    if st == 0:
                        acc.count("erroneous_accepted"); continue
                    if isinstance(st, int) and st < 0:
                        acc.count("killed_on_erroneous_input"); continue
                    d = M.observe_diag(err)
                    if d is None:
                        acc.count("diagnostic_without_location"); continue
                    fn, line, echo = d
                    fn = M.norm(fn, wd)
                    acc.count("judged_D")
                    acc.kinds.add((construct(meta, info), kind, enc))
                    if info["phys"] != 1:
                        acc.count("nontrivial_D")
                    where = "[%s] %s: %s error at probe vp%d (%s, physical line %d of %s%s)" % (
                        fstr(forest), enc, kind, target, meta["kind"], info["phys"], info["file"],
                        ", presumed %s:%d" % (info["presfile"], info["pres"]) if info["directive"] else "")
                    if (M.norm(fn), line) not in acceptable(info):
                        fs = dict(files); fs.update(sup)
                        acc.deviation("C18|%s|diagnostic:%s|observed=%s" % (construct(meta, info), kind, position_class(fn, line, info)),
                                      "%s is reported at %s:%d" % (where, fn, line), fs,
                                      cc1_cmd() + " -cc1-output t.s t.c 2> err.txt && exit 0\n"
                                      "python3 c18_position.py D err.txt %d '%s'" % (target, spec(acceptable(info))))
                    if not re.search(r"vp\d+\s*\(", echo):
                        acc.count("diagnostics_without_source_echo")       # echoing the line is not required, only that an echo is right
                    elif ("vperr%d" % target) not in echo:
                        fs = dict(files); fs.update(sup)
                        acc.deviation("C18|%s|diagnostic:%s-echo|observed=offending-token-not-in-echoed-line" % (construct(meta, info), kind),
                                      "%s: echoed text %r does not show the offending token" % (where, echo[:120]), fs,
                                      cc1_cmd() + " -cc1-output t.s t.c 2> err.txt && exit 0\n"
                                      "head -4 err.txt | grep -q vperr%d && exit 0; exit 1" % target)
    shutil.rmtree(wd, ignore_errors=True)
    return acc.result()


# ---------------------------------------------------------------------------------------------------------------
# S: .loc / .file
def judge_S(acc, asm, r, files, exp, forest, enc, sup, cd):
    """Plain rendering (probes are `vpK(0, 0);`).  Returns the set of unacceptable in-between records (a, b, file, line)."""
    table, mentions, records = M.observe_S(asm)
    table = {k: M.norm(v, cd) for k, v in table.items()}
    exp_d = dict(exp)
    for pid, info in exp:
        meta = r.meta[pid]
        m = mentions.get(pid)
        if m is None:
            acc.count("unmodelled_S"); continue
        fno, line = m
        acc.count("judged_S")
        acc.kinds.add((construct(meta, info), ".loc", enc))
        if info["phys"] != 1:
            acc.count("nontrivial_S")
        where = "[%s] %s: statement vp%d (%s, physical line %d of %s%s)" % (
            fstr(forest), enc, pid, meta["kind"], info["phys"], info["file"],
            ", presumed %s:%d" % (info["presfile"], info["pres"]) if info["directive"] else "")
        rp = cc1_cmd() + " -cc1-output t.s t.c || exit 0\npython3 c18_position.py S t.s %d '%s'" % (pid, spec(acceptable(info)))
        if fno not in table:
            acc.deviation("C18|.file-table|.loc|observed=file-number-without-.file-entry", "%s: .loc %d %d but no .file %d" % (where, fno, line, fno),
                          fs_all(files, sup), rp)
            continue
        fn = table[fno]
        if (M.norm(fn), line) not in acceptable(info):
            acc.deviation("C18|%s|.loc|observed=%s" % (construct(meta, info), position_class(fn, line, info)),
                          "%s is covered by `.loc %d %d` = %s:%d" % (where, fno, line, fn, line), fs_all(files, sup), rp)
    # every record between two probes belongs to one of them
    bad = set()
    for a, b, fno, line in records:
        if a == 0 or b == 0 or a not in exp_d or b not in exp_d:
            continue
        fn = M.norm(table.get(fno, "?"))
        ok = acceptable(exp_d[a]) | acceptable(exp_d[b])
        acc.count("loc_records_checked")
        if (fn, line) not in ok:
            bad.add((a, b, fn, line))
            info, meta = exp_d[b], r.meta[b]
            acc.deviation("C18|%s|.loc-between-statements|observed=%s" % (construct(meta, info), position_class(fn, line, info)),
                          "[%s] %s: `.loc %d %d` (%s:%d) appears between the instructions of vp%d and vp%d, whose statements are at %s"
                          % (fstr(forest), enc, fno, line, fn, line, a, b, sorted(ok)), fs_all(files, sup),
                          cc1_cmd() + " -cc1-output t.s t.c || exit 0\npython3 c18_position.py R t.s %d-%d '%s'" % (a, b, spec(ok)))
    return bad


def judge_S_builtin(acc, asm, asm_plain, r, files, exp, forest, enc, sup, cd):
    """Rendering with `vpK(__LINE__, __FILE__);`: the tokens that __LINE__/__FILE__ expand to must not drag in .loc records
    that the plain rendering `vpK(0, 0);` of the same files does not have (differential, plus the acceptable set)."""
    exp_d = dict(exp)

    def unacceptable(text):
        table, mentions, records = M.observe_S(text)
        table = {k: M.norm(v, cd) for k, v in table.items()}
        out = set()
        for a, b, fno, line in records:
            if a == 0 or b == 0 or a not in exp_d or b not in exp_d:
                continue
            if r.meta[a]["kind"] == "macro-body" or r.meta[b]["kind"] == "macro-body":
                continue
            fn = M.norm(table.get(fno, "?"))
            if (fn, line) not in acceptable(exp_d[a]) | acceptable(exp_d[b]):
                out.add((a, b, fn, line))
        return out
    extra = unacceptable(asm) - unacceptable(asm_plain)
    acc.count("builtin_token_units_checked")
    for a, b, fn, line in sorted(extra):
        ok = acceptable(exp_d[a]) | acceptable(exp_d[b])
        acc.deviation("C18|__LINE__/__FILE__-token|.loc-between-statements|observed=%s" % ("line-1" if line == 1 else "other-line"),
                      "[%s] %s: with vpK(__LINE__, __FILE__) instead of vpK(0, 0) a record for %s:%d appears between the instructions of vp%d and vp%d, "
                      "whose statements are at %s" % (fstr(forest), enc, fn, line, a, b, sorted(ok)), fs_all(files, sup),
                      cc1_cmd() + " -cc1-output t.s t.c || exit 0\npython3 c18_position.py R t.s %d-%d '%s'" % (a, b, spec(ok)))


def _shard_S(args):
    chibicc, wd, sidx, cases, encs = args
    acc = Acc()
    sup = support_files()
    for ci, (n, forest) in enumerate(cases):
        r = render(forest, "S")
        for enc in encs:
            files = encode_all(r, enc)
            files[PRE_H_NAME] = PRE_H.encode()
            exp = M.expected(files)
            shutil.rmtree(wd, ignore_errors=True)
            write_files(wd, files)
            st, out, err = core.run_limited(compile_args(chibicc, "t.s"), cwd=wd, timeout=120)
            acc.count("runs_S")
            if st == "timeout":
                acc.count("timeouts"); continue
            if st != 0:
                acc.deviation("C18|-S|valid-file-%s" % ("killed" if isinstance(st, int) and st < 0 else "rejected"),
                              "[%s] %s: compilation fails (status %s): %s" % (fstr(forest), enc, st, err.strip().splitlines()[:1]),
                              dict(files), cc1_cmd() + " -cc1-output t.s t.c >/dev/null 2>&1 && exit 0; exit 1")
                continue
            judge_S(acc, open(os.path.join(wd, "t.s"), errors="replace").read(), r, files, exp, forest, enc, sup, wd)
    shutil.rmtree(wd, ignore_errors=True)
    return acc.result()


# ---------------------------------------------------------------------------------------------------------------
# X: compiled and executed
def _shard_X(args):
    chibicc, wd, sidx, cases, encs = args
    acc = Acc()
    sup = support_files()
    os.makedirs(wd, exist_ok=True)
    units = []
    gcc_entries = []
    for ci, (n, forest) in enumerate(cases):
        r = render(forest, "E")
        for enc in encs:
            files = encode_all(r, enc)
            exp = M.expected(files)
            files[PRE_H_NAME] = PRE_H.encode()
            d = "x%d_%s" % (ci, enc.replace("+", ""))
            cd = os.path.join(wd, d)
            write_files(cd, files)
            gcc_entries.append(((ci, enc), d))
            fnname = "vpf%d" % len(units)
            st, out, err = core.run_limited([chibicc, "-cc1", "-DVPFN=" + fnname, "-include", PRE_H_NAME, "-cc1-input", "t.c",
                                             "-cc1-output", "t.s", "t.c"], cwd=cd, timeout=120)
            acc.count("runs_X")
            if st == "timeout":
                acc.count("timeouts"); continue
            if st != 0:
                acc.deviation("C18|-S|valid-file-%s" % ("killed" if isinstance(st, int) and st < 0 else "rejected"),
                              "[%s] %s: compilation fails (status %s): %s" % (fstr(forest), enc, st, err.strip().splitlines()[:1]),
                              dict(files), cc1_cmd() + " -cc1-output t.s t.c >/dev/null 2>&1 && exit 0; exit 1")
                continue
            rs = render(forest, "S")
            pd = os.path.join(wd, "plain")
            shutil.rmtree(pd, ignore_errors=True)
            pf = encode_all(rs, enc); pf[PRE_H_NAME] = PRE_H.encode()
            write_files(pd, pf)
            st2, o2, e2 = core.run_limited(compile_args(chibicc, "t.s"), cwd=pd, timeout=120)
            if st2 == 0 and [p for p, i in M.expected(pf)] == [p for p, i in exp]:
                judge_S_builtin(acc, open(os.path.join(cd, "t.s"), errors="replace").read(), open(os.path.join(pd, "t.s"), errors="replace").read(),
                                r, files, exp, forest, enc, sup, cd)
            st, out, err = core.run_limited(["as", "-o", os.path.join(wd, fnname + ".o"), "t.s"], cwd=cd, timeout=300)
            if st != 0:
                if re.search(r"\.loc|\.file|file number|line number", err):
                    acc.deviation("C18|.file-table|assembler-rejects-line-records", "[%s] %s: as: %s" % (fstr(forest), enc, err.strip().splitlines()[:2]),
                                  fs_all(files, sup), cc1_cmd() + " -cc1-output t.s t.c || exit 0\nas -o t.o t.s 2>/dev/null && exit 0; exit 1")
                else:
                    acc.count("as_failed")
                continue
            units.append((fnname, ci, enc, r, files, exp, forest))
    gcc = gcc_E(wd, gcc_entries) or {}
    if not units:
        return acc.result()
    drv = ["#include <stdio.h>", "static int cur;"]
    drv += ["void vp%d(int l, char *f) { printf(\"%%d %d %%d %%s\\n\", cur, l, f); }" % (i, i) for i in range(1, MAXPROBE + 1)]
    drv += ["int vpsink;"] + ["void %s(void);" % u[0] for u in units]
    drv += ["int main(void) {"] + ["  cur = %d; %s();" % (k, u[0]) for k, u in enumerate(units)] + ["  return 0; }"]
    with open(os.path.join(wd, "drv.c"), "w") as f:
        f.write("\n".join(drv) + "\n")
    st, out, err = core.run_limited(["gcc", "-O0", "-o", "drv", "drv.c"] + [u[0] + ".o" for u in units], cwd=wd, timeout=900)
    if st != 0:
        raise core.HarnessError("C18 exec driver does not link: %s" % err[-800:])
    st, out, err = core.run_limited([os.path.join(wd, "drv")], cwd=wd, timeout=300)
    if st != 0:
        if st == "timeout":
            acc.count("timeouts"); return acc.result()
        raise core.HarnessError("C18 exec driver failed: %s %s" % (st, err[-300:]))
    got = {}
    for l in out.splitlines():
        w = l.split(" ", 3)
        got.setdefault(int(w[0]), []).append((int(w[1]), int(w[2]), w[3]))
    for k, (fnname, ci, enc, r, files, exp, forest) in enumerate(units):
        obs = got.get(k, [])
        g = gcc.get((ci, enc))
        if [p for p, l, f in obs] != [p for p, i in exp]:
            acc.deviation("C18|run|probe-sequence-differs", "[%s] %s: executed probes %s, expected %s"
                          % (fstr(forest), enc, [p for p, l, f in obs], [p for p, i in exp]), dict(files), None)
            continue
        for (pid, line, fn), (_, info) in zip(obs, exp):
            meta = r.meta[pid]
            fn = M.norm(fn, os.path.join(wd, "x%d_%s" % (ci, enc.replace("+", ""))))
            want = (info["pres"], M.norm(info["presfile"]))
            if g is None or g.get(pid) != want:
                acc.count("skipped_unspecified" if meta["kind"] in ("macro-args", "macro-body") else "oracle_disagreements")
                continue
            acc.count("judged_X")
            acc.kinds.add((construct(meta, info), "run", enc))
            fs = dict(files); fs.update(sup)
            fs["drv.c"] = ("#include <stdio.h>\n" + "".join("void vp%d(int l, char *f) { printf(\"%d %%d %%s\\n\", l, f); }\n" % (i, i)
                                                             for i in range(1, MAXPROBE + 1)) + "int vpsink; void vpfn(void); int main(void) { vpfn(); return 0; }\n")
            rp = (cc1_cmd() + " -cc1-output t.s t.c || exit 0\nas -o t.o t.s && gcc -o drv drv.c t.o || exit 0\n./drv > run.txt || exit 0\n"
                  "python3 c18_position.py X run.txt %d '%s'" % (pid, spec([(info["presfile"], info["pres"])])))
            if line != info["pres"]:
                acc.deviation("C18|%s|run:__LINE__|observed=%s" % (construct(meta, info), M.line_class(line, info)),
                              "[%s] %s: probe vp%d (%s, physical line %d of %s) receives __LINE__ == %d at run time; C11/gcc: %d"
                              % (fstr(forest), enc, pid, meta["kind"], info["phys"], info["file"], line, info["pres"]), fs, rp)
            if M.norm(fn) != want[1]:
                acc.deviation("C18|%s|run:__FILE__|observed=%s" % (construct(meta, info) + ("" if info["file"] == "t.c" else "+in-header"),
                                                                   file_class(fn, info)),
                              "[%s] %s: probe vp%d in %s receives __FILE__ == %r at run time; C11/gcc: %r"
                              % (fstr(forest), enc, pid, info["file"], fn, info["presfile"]), fs,
                              rp + " | grep -q \"observed ('%s'\" && exit 0; exit 1" % M.norm(info["presfile"]))
    shutil.rmtree(wd, ignore_errors=True)
    return acc.result()


# ---------------------------------------------------------------------------------------------------------------
def cases_upto(nmax, alphabet=None, nmin=1):
    alpha = tuple(alphabet or LEAVES)
    out = []
    for n in range(nmin, nmax + 1):
        out += [(n, f) for f in forests(n, 2, -1, alpha)]
    return out


def merge(ctx, results, totals, kinds):
    for n, dev, ks in results:
        for k, v in n.items():
            totals[k] = totals.get(k, 0) + v
        kinds.update(tuple(k) for k in ks)
        for sig in dev:
            cnt, desc, files, replay = dev[sig]
            for _ in range(cnt):
                ctx.violation(sig, desc, files=files, replay=replay)


def run(ctx):
    thorough = ctx.tier == "thorough"
    totals, kinds = {}, set()
    bounds_done = []
    all4 = ["lf", "crlf", "lf+bom", "crlf+bom"]
    all5 = all4 + ["lf-noeof"]
    all6 = all5 + ["mixed"]
    nfiles = [0]

    def phase(name, fn, cases, chunk, mkargs):
        """One bound = one pmap over shards, cut into groups so that the global deadline is honoured between groups."""
        shards = core.chunks(cases, chunk)
        args = [mkargs(os.path.join(ctx.work, "%s_%d" % (re.sub(r"\W", "", name), i)), i, s) for i, s in enumerate(shards)]
        group = core.NPROC * 3
        for g in range(0, len(args), group):
            if ctx.out_of_time(reserve=45):
                ctx.incomplete("bound %s: %d of %d shards done when the deadline was reached" % (name, g, len(args)))
                return False
            merge(ctx, core.pmap(fn, args[g:g + group]), totals, kinds)
        bounds_done.append("%s (%d forests)" % (name, len(cases)))
        nfiles[0] += len(cases)
        return True

    full3 = cases_upto(3)
    upto2 = [c for c in full3 if c[0] <= 2]
    only3 = [c for c in full3 if c[0] == 3]
    # ---- E: __LINE__/__FILE__ in -E output ----
    phase("E n<=3 x {lf,crlf}x{bom,-},lf-noeof%s" % (",mixed" if thorough else ""), _shard_E, full3, 60,
          lambda wd, i, s: (ctx.chibicc, wd, i, s, all6 if thorough else all5, [], 3, ("lf",)))
    if thorough:
        phase("E n=4 x {lf,crlf+bom,lf-noeof}", _shard_E, cases_upto(4, nmin=4), 120,
              lambda wd, i, s: (ctx.chibicc, wd, i, s, [], ["lf", "crlf+bom", "lf-noeof"], 0, ("lf",)))
        phase("E n=5 MID alphabet x lf", _shard_E, cases_upto(5, MID, nmin=5), 150,
              lambda wd, i, s: (ctx.chibicc, wd, i, s, [], ["lf"], 0, ("lf",)))
        phase("E n=6 REDUCED alphabet x lf", _shard_E, cases_upto(6, REDUCED, nmin=6), 150,
              lambda wd, i, s: (ctx.chibicc, wd, i, s, [], ["lf"], 0, ("lf",)))
    else:
        phase("E n=4 x lf", _shard_E, cases_upto(4, nmin=4), 120,
              lambda wd, i, s: (ctx.chibicc, wd, i, s, [], ["lf"], 0, ("lf",)))
    # ---- D: diagnostics ----
    phase("D n<=2 x all encodings x {lex,pp,parse}", _shard_D, upto2, 6,
          lambda wd, i, s: (ctx.chibicc, wd, i, s, all6 if thorough else all5, [], 2, ERRKINDS, ERRKINDS))
    if thorough:
        phase("D n=3 x lf x {lex,pp,parse}", _shard_D, only3, 24,
              lambda wd, i, s: (ctx.chibicc, wd, i, s, [], ["lf"], 0, ERRKINDS, ERRKINDS))
    # ---- S: .loc / .file ----
    phase("S n<=2 x all encodings", _shard_S, upto2, 12, lambda wd, i, s: (ctx.chibicc, wd, i, s, all6 if thorough else all5))
    phase("S n=3 x %s" % ("{lf,crlf}x{bom,-}" if thorough else "lf"), _shard_S, only3, 100,
          lambda wd, i, s: (ctx.chibicc, wd, i, s, all4 if thorough else ["lf"]))
    # ---- X: compiled and executed ----
    phase("X n<=2 x %s" % ("all encodings" if thorough else "{lf,crlf+bom}"), _shard_X, upto2, 14,
          lambda wd, i, s: (ctx.chibicc, wd, i, s, all6 if thorough else ["lf", "crlf+bom"]))
    if thorough:
        phase("X n=3 x lf", _shard_X, only3, 100, lambda wd, i, s: (ctx.chibicc, wd, i, s, ["lf"]))

    judged = sum(totals.get(k, 0) for k in ("judged_E", "judged_D", "judged_S", "judged_X"))
    nontriv = sum(totals.get(k, 0) for k in ("nontrivial_E", "nontrivial_D", "nontrivial_S")) + totals.get("judged_X", 0)
    ctx.cover(evaluations=judged, distinct_nontrivial=nontriv, forests_enumerated=nfiles[0], bounds_completed=bounds_done,
              construct_observable_encoding_classes=len(kinds),
              skipped_undefined=totals.get("skipped_unspecified", 0), oracle_disagreements=totals.get("oracle_disagreements", 0),
              rule="case = (forest of line items, encoding, observable, probe); evaluations = probes judged (observed position compared with "
                   "the model, for __LINE__/__FILE__ only where gcc -E agrees with the model); non-trivial = the probe's expected line is not 1 "
                   "(E, D, S) or the value went through code generation and execution (X)",
              **{k: v for k, v in totals.items() if k not in ("skipped_unspecified", "oracle_disagreements")})
    if ctx.exhaustive:
        if totals.get("judged_E", 0) < 5000 or totals.get("judged_D", 0) < 2000 or totals.get("judged_S", 0) < 2000 or totals.get("judged_X", 0) < 500:
            raise core.HarnessError("vacuous: %r" % totals)
        need = {"code", "block-comment", "spliced-head", "spliced-line", "macro-args", "after-macro", "macro-body", "after-#line", "spliced-line+after-#line"}
        seen = set(k[0] for k in kinds)
        if need - seen:
            raise core.HarnessError("constructs never judged: %s" % sorted(need - seen))
    if totals.get("oracle_disagreements", 0) * 50 > max(judged, 1):
        raise core.HarnessError("model and gcc disagree on %d probes outside the unspecified class" % totals["oracle_disagreements"])
    if totals.get("unmodelled_S", 0) > totals.get("judged_S", 0):
        raise core.HarnessError("the .loc observer does not find the probe statements any more (%r)" % totals)
    for f in (full3[5], full3[150], full3[len(full3) // 2], full3[-1]):
        r = render(f[1], "E")
        ctx.sample({"forest": fstr(f[1]), "files": {k: "\n".join(v) for k, v in r.files.items()},
                    "expected": [(p, i["presfile"], i["pres"]) for p, i in M.expected(encode_all(r, "lf"))]})
    ctx.assume("lone CR line ends are not generated (the property promises LF and CR LF only)")
    ctx.assume("__LINE__ inside the arguments of a multi-line macro invocation is judged only where the model (own physical line) and gcc -E agree")
    ctx.assume("diagnostics and .loc records may use either the physical or the presumed (file, line) pair; wording of diagnostics is not read")
    ctx.assume(".loc records of tokens that come from macro bodies are not judged (the property does not say whether they denote the definition or the expansion)")
