int f(signed char a, short b, int c, long d) {
  switch (a) { case 1: return 1; case 5 ... 7: return 2; }
  switch (b) { case 1: return 3; case 5 ... 7: return 4; }
  switch (c) { case 1: return 5; case 5 ... 7: return 6; }
  switch (d) { case 1: return 7; case 5 ... 7: return 8; }
  return 0;
}
