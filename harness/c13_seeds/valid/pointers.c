int f(int *p, int n) {
  int *q = p + n;
  long d = q - p;
  char *c = (char *)p;
  return *q + p[1] + d + *(c + 1) + (&p[2])[-1] + (p < q);
}
