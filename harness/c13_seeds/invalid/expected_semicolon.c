int a
int b;
