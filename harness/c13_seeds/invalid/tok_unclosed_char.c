int c = 'a;
