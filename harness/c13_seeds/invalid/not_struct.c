int x;
int f(void) { return x.a; }
