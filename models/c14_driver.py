"""Reference model of a C compiler driver's pipeline, for property C14.

The model describes what a *correct* driver does for a command shape

    (mode, o, kinds, outloc [, var])

  mode    "E" | "S" | "c" | "link"
  o       None (no -o) | "file" (-o <path>) | "dash" (-o -, standard output; judged for -E and -S only)
  kinds   tuple of input kinds, one per input slot (length 1..3)
  outloc  "w" (fresh writable directory) | "sent" (every possible output path pre-exists with sentinel
          content) | "unw" (-o: path inside a directory that does not exist; no -o: every default output name
          is an existing directory)
  var     optional, a tuple of (key, value) pairs - the further dimensions:
            ("paths", (form, ...))   how each input is NAMED on the command line, form = "<dir form>|<name form>"
                                     (DIR_FORMS x NAME_FORMS below); default: a name with extension in the cwd
            ("oform", form)          how the -o path is spelled (O_FORMS); default "out.x"
            ("md", "MD" | "MF")      -MD / -MD -MF deps.mk : a dependency file is requested as well
            ("opos", k)              -o <path> is written after the k-th input (1..n) instead of before all inputs

and yields: the files to create before the run, the argv, the expected subprocess steps, the per-TU output paths,
the set of requested outputs, and whether the command must succeed.  Nothing here looks at chibicc's sources;
only conventional cc semantics that property C14 relies on are modelled, and everything the property does not
define is marked undefined (`ok=None`) or `defined=False` so the checker never judges it.

Input kinds comprise standard input ("-" with -xc / -x assembler: c_in, c_pp_in, c_gen_in, s_in) and a library
argument ("-lm": lib), which is an input of the linker only and never a translation unit.

Driver-fault kinds (DRIVER_FAULT_KINDS): words among the inputs whose failure is the driver's own business - unk (an
existing file whose extension names no language: the linker rejects it in link mode, otherwise a driver may ignore
or refuse it: status undefined), opt_unk / opt_badx / opt_noarg (an unknown option, -x with an unknown language, -o
lacking its argument as the last word: the command must be refused, `driver_refuses`).  None of them is a translation
unit, none has an output.

Output naming (what "the requested outputs" are):
  * with -o: that path, verbatim;
  * without -o: one output per translation unit, named after the LAST COMPONENT of the input as written on the
    command line with its extension (the part after the last dot of that component, if any) replaced, in the
    current directory - whatever the directory part looks like.  Where conventions differ the model holds a set of
    acceptable names (`alts`): a last component that is all extension (".c") gives ".o" (extension stripped) or
    ".c.o" (gcc: a name without extension);
  * -MD: one dependency file per C translation unit; accepted names: <base of -o or of the input>.d or
    <base of -o>-<base of input>.d (gcc >= 11 when linking; "a-" without -o), in the current directory or next to
    the -o path; -MF names it verbatim.
  Two units whose documented default names coincide (same last component in different directories; one -o for
  several units; one dependency file for several units) are a usage conflict: a driver may refuse the command
  (gcc overwrites silently), so success is never required (`ok=None`); what is required is stated by the checker:
  exit 0 means every translation unit's output is there.
All paths of the model are relative to the root of the observed tree; commands run in `cwd_rel` below it
("" for the classic layout, "wd" when path forms are in play - the tree then has wd/, wd/sub/, wd/d.1/, up.2/,
ab.3/ so that inputs can be named through plain, dotted, parent and absolute directory parts).
"""
import os

SENTINEL = b"C14-SENTINEL-CONTENT\n"

# kind -> (extension, exists, what it is)
KINDS = {
    "c":       ".c",   # compiles
    "c_pp":    ".c",   # #error: the front end fails in every mode
    "c_parse": ".c",   # syntax error: front end fails except under -E
    "c_gen":   ".c",   # error detected while generating code (after parsing): fails except under -E
    "c_asm":   ".c",   # the front end accepts it, but an asm statement carries text the assembler rejects:
                       # -E and -S succeed, under -c and in link mode the `as` step of this unit fails
    "c_nx":    ".c",   # does not exist
    "c_dir":   ".c",   # unreadable: a directory (we run as root, so permission bits do not bite)
    "s":       ".s",   # assembles
    "s_bad":   ".s",   # the assembler rejects it
    "s_nx":    ".s",   # does not exist
    "o":       ".o",   # links
    "o_bad":   ".o",   # references an undefined symbol: the linker rejects it
    "o_nx":    ".o",   # does not exist
    # standard input as an input ("-"; needs -xc / -x assembler): the text of the base kind arrives on fd 0
    "c_in":     None,
    "c_pp_in":  None,
    "c_gen_in": None,
    "s_in":     None,
    # a library argument (-lm): passed to the linker, not a translation unit
    "lib":      None,
    # failures that originate in the driver itself (no subprocess is to blame):
    "unk":       ".data",  # an existing file whose extension names no language: not a translation unit; a driver
                           # hands it to the linker (which rejects the text) or refuses it; ignored-or-refused
                           # outside link mode
    "opt_unk":   None,     # an option no driver knows, written among the inputs: the command is refused
    "opt_badx":  None,     # -x with a language nobody knows, written among the inputs: the command is refused
    "opt_noarg": None,     # an option that lacks its argument (-o as the very last word): the command is refused
}

STDIN_KINDS = {"c_in": "c", "c_pp_in": "c_pp", "c_gen_in": "c_gen", "s_in": "s"}
C_KINDS = ("c", "c_pp", "c_parse", "c_gen", "c_asm", "c_nx", "c_dir", "c_in", "c_pp_in", "c_gen_in")
S_KINDS = ("s", "s_bad", "s_nx", "s_in")
O_KINDS = ("o", "o_bad", "o_nx")
# words among the inputs that are options the driver must refuse (never inputs, never translation units)
OPT_KINDS = {"opt_unk": "--c14-no-such-option", "opt_badx": "-xc14nolang", "opt_noarg": "-o"}
# kinds whose failure is the driver's own business: it is detected (if at all) by the driver, not by a step
DRIVER_FAULT_KINDS = ("unk", "opt_unk", "opt_badx", "opt_noarg")
UNK_TEXT = b"C14: notes kept next to the sources; (not a translation unit, not an object) %d\n"

# ---- how an input is named on the command line ------------------------------------------------------------
# directory form -> (prefix written on the command line, directory relative to the tree root)
ABS = "@ABS@"       # placeholder for the absolute path of the tree root (bound when the command is run)
DIR_FORMS = {
    "":         ("", "wd"),                     # the current directory, no directory part
    "./":       ("./", "wd"),                   # a directory part whose only dot is "."
    "sub/":     ("sub/", "wd/sub"),             # a plain subdirectory
    "d.1/":     ("d.1/", "wd/d.1"),             # a subdirectory with a dot in its name
    "../":      ("../", ""),                    # the parent directory
    "../up.2/": ("../up.2/", "up.2"),           # a sibling directory with a dot in its name
    "abs/":     (ABS + "/ab.3/", "ab.3"),       # an absolute path through a directory with a dot in its name
}
LAYOUT_DIRS = ("wd", "wd/sub", "wd/d.1", "up.2", "ab.3")
# what a violation is attributed to: is there a directory part, and does it contain a dot
DIR_CLASS = {"": "cwd", "sub/": "plain-dir", "./": "dotted-dir", "d.1/": "dotted-dir", "../": "dotted-dir",
             "../up.2/": "dotted-dir", "abs/": "dotted-dir"}
# name form -> last component for a C / an assembly input in slot i
NAME_FORMS = {
    "ext":     ("c%d.c", "s%d.s"),              # name.ext
    "noext":   ("u%d", "u%d"),                  # no extension (needs -x)
    "dots":    ("c%d.v2.c", "s%d.v2.s"),        # several dots: only the last extension is replaced
    "dotonly": (".c", ".s"),                    # all extension
    "same":    ("same.c", "same.s"),            # the same last component in every slot
}
# -o spellings (relative to the cwd); the first is the classic one
O_FORMS = ("out.x", "./out", "out.v2.x", "d.1/out", "../up.2/out")
MF_NAME = "deps.mk"


def in_name(kind, slot):
    if kind in STDIN_KINDS:
        return "-"
    if kind == "lib":
        return "-lm"
    if kind in OPT_KINDS:
        return OPT_KINDS[kind]
    return "%s%d%s" % (kind.replace("_", ""), slot, KINDS[kind])


def base_kind(kind):
    return STDIN_KINDS.get(kind, kind)


def base_of(name):
    return name.rsplit(".", 1)[0]


def sym(slot):
    return "vp_f%d" % slot


def c_source(kind, slot, main=None):
    """main: does this unit define main()?  Default: the unit in slot 0 does."""
    body = "int %s(void){return %d;}\n" % (sym(slot), slot + 1)
    if (slot == 0) if main is None else main:
        body += "int main(void){return 0;}\n"
    if kind == "c":
        return body
    if kind == "c_pp":
        return body + "#error C14 deliberate preprocessing error\n"
    if kind == "c_parse":
        return body + "int vp_bad%d( { return }\n" % slot
    if kind == "c_gen":
        return body + "void vp_bad%d(void){ 1 = 2; }\n" % slot
    if kind == "c_asm":
        return body + 'void vp_bad%d(void){ asm("vp_not_an_instruction %%rax, %%rbx"); }\n' % slot
    raise KeyError(kind)


def s_source(kind, slot, main=None):
    t = ".text\n.globl %s\n%s:\n  mov $%d, %%eax\n  ret\n" % (sym(slot), sym(slot), slot + 1)
    if (slot == 0) if main is None else main:
        t += ".globl main\nmain:\n  xor %eax, %eax\n  ret\n"
    if kind == "o_bad":
        t += ".globl vp_caller%d\nvp_caller%d:\n  call vp_undefined_symbol\n  ret\n" % (slot, slot)
    if kind == "s_bad":
        t += "  this is not an instruction %%%\n"
    t += '.section .note.GNU-stack,"",@progbits\n'
    return t


def cc1_fails(kind, mode):
    kind = base_kind(kind)
    if kind in ("c_pp", "c_nx", "c_dir"):
        return True
    if kind in ("c_parse", "c_gen"):
        return mode != "E"
    return False


def name_bases(arg):
    """Acceptable 'names without extension' of the last component of `arg` (see module docstring)."""
    b = arg.rsplit("/", 1)[-1]
    if b.startswith(".") and b.count(".") == 1:
        return ("", b)
    if "." in b:
        return (b.rsplit(".", 1)[0],)
    return (b,)


def _norm(*parts):
    p = os.path.normpath(os.path.join(*[x for x in parts if x] or ["."]))
    return "" if p == "." else p


class Shape:
    def __init__(self, mode, o, kinds, outloc, var=()):
        self.mode, self.o, self.kinds, self.outloc = mode, o, tuple(kinds), outloc
        v = dict((k, val) for k, val in (var or ()))
        unknown = set(v) - set(("paths", "oform", "md", "opos"))
        if unknown:
            raise ValueError("unknown shape dimension %s" % sorted(unknown))
        self.paths = tuple(v["paths"]) if v.get("paths") else None
        self.oform = v.get("oform")
        self.md = v.get("md")
        self.opos = v.get("opos")       # -o <path> is written after the opos-th input (default: before all inputs)
        self.var = tuple(sorted((k, tuple(val) if isinstance(val, (list, tuple)) else val) for k, val in v.items() if val))
        self.cwd_rel = "wd" if (self.paths or self.oform) else ""
        if self.paths and len(self.paths) != len(self.kinds):
            raise ValueError("one path form per input")
        self._name_inputs()
        self._derive()

    def spec(self):
        base = (self.mode, self.o, self.kinds, self.outloc)
        return base + (self.var,) if self.var else base

    def key(self):
        k = "%s|o=%s|%s|%s" % (self.mode, self.o or "absent", ",".join(self.kinds), self.outloc)
        for name, val in self.var:
            k += "|%s=%s" % (name, ",".join(val) if isinstance(val, tuple) else val)
        return k

    def tokens(self):
        """What a violation is attributed to: the input kinds, each with its path form unless that is the classic
        one, and the further option dimensions."""
        t = []
        for i, k in enumerate(self.kinds):
            f = self.paths[i] if self.paths else "|ext"
            d, n = f.split("|")
            t.append(k if f == "|ext" else "%s@%s/%s" % (k, DIR_CLASS[d], n))
        if self.md:
            t.append("-MD" if self.md == "MD" else "-MD-MF")
        if self.oform and self.oform != O_FORMS[0]:
            d, b = os.path.split(self.oform)
            t.append("-o@%s/%s" % (DIR_CLASS[d + "/" if d else ""], "noext" if "." not in b else "dots" if b.count(".") > 1 else "ext"))
        if self.opos:
            t.append("-o@after-last-input" if self.opos >= len(self.kinds) else "-o@between-inputs")
        return t

    # ------------------------------------------------------------------
    def _name_inputs(self):
        """inputs: as written on the command line (ABS = placeholder of the absolute tree root); in_files: where
        the file lives relative to the tree root (None: standard input, library argument)."""
        self.inputs, self.in_files, self.x = [], [], None
        need_x, langs = False, set()
        for i, k in enumerate(self.kinds):
            bk = base_kind(k)
            lang = "c" if k in C_KINDS else "assembler" if k in S_KINDS else "none" if k in O_KINDS else None
            if lang:
                langs.add(lang)
            if k in STDIN_KINDS or k == "lib" or k in OPT_KINDS:
                self.inputs.append(in_name(k, i))
                self.in_files.append(None)
                need_x = need_x or k in STDIN_KINDS
                continue
            form = self.paths[i] if self.paths else "|ext"
            dform, nform = form.split("|")
            if form == "|ext" and not self.cwd_rel:
                name, prefix, drel = in_name(k, i), "", ""
            else:
                if bk not in ("c", "s"):
                    raise ValueError("path forms are defined for the kinds c and s")
                prefix, drel = DIR_FORMS[dform]
                name = NAME_FORMS[nform][0 if bk == "c" else 1]
                name = name % i if "%" in name else name
                need_x = need_x or nform == "noext"
            self.inputs.append(prefix + name)
            self.in_files.append(_norm(drel, name))
        self.invalid = None
        if need_x:
            if langs == {"c"}:
                self.x = "c"
            elif langs == {"assembler"}:
                self.x = "assembler"
            else:
                self.invalid = "-x applies to every input: all inputs must be of one language"
        if self.kinds.count("lib") == len(self.kinds):
            self.invalid = "no input besides library arguments"
        if "opt_noarg" in self.kinds and (self.kinds.index("opt_noarg") != len(self.kinds) - 1 or self.o):
            self.invalid = "an option without its argument is the last word of the command (else it swallows an input)"
        if self.opos and not (self.o == "file" and 1 <= self.opos <= len(self.kinds)):
            self.invalid = "-o position without -o <file>"
        if need_x and "opt_badx" in self.kinds:
            self.invalid = "two -x options"
        if sum(1 for k in self.kinds if k in STDIN_KINDS) > 1:
            self.invalid = "standard input named twice"
        files = [p for p in self.in_files if p is not None]
        if len(set(files)) < len(files):
            self.invalid = "the same input file named twice"        # ('same.c ./same.c' too)

    def _cwd(self, rel):
        """path relative to the cwd -> relative to the tree root"""
        return _norm(self.cwd_rel, rel)

    def _default_out(self, i, ext):
        bases = name_bases(self.inputs[i])
        alts = tuple(self._cwd(b + ext) for b in bases)
        self.alts[alts[0]] = alts
        return alts[0]

    def _derive(self):
        mode, kinds = self.mode, self.kinds
        self.defined = True
        self.why_undefined = None
        if self.invalid:
            self.defined, self.why_undefined = False, self.invalid
        # (under -E a driver may take every named file for C text - chibicc does - or leave non-C files alone)
        if mode == "E" and any(k not in C_KINDS and k != "lib" and k not in OPT_KINDS for k in kinds):
            self.defined, self.why_undefined = False, "-E with non-C inputs"
        if self.outloc != "w" and mode == "E" and not self.o:
            self.defined, self.why_undefined = False, "-E without -o writes to stdout: no output location"
        opath = o_arg = None
        if self.o == "dash":
            # "-o -": standard output for -E and -S; what -c / link do with it is not defined by the property
            if mode in ("c", "link"):
                self.defined, self.why_undefined = False, "-o - with an object/executable output"
            if self.outloc != "w":
                self.defined, self.why_undefined = False, "-o - has no output location"
        elif self.o:
            o_arg = self.oform or "out.x"
            if self.outloc == "unw":
                o_arg = "nodir/" + o_arg
            opath = self._cwd(o_arg)
        elif self.oform:
            self.defined, self.why_undefined = False, "an -o spelling without -o"
        self.opath, self.o_arg = opath, o_arg
        self.to_stdout = mode in ("E", "S") and (self.o == "dash" or (mode == "E" and not self.o))

        # per-slot outputs and steps of the ideal pipeline
        self.tu_out = {}        # slot -> requested output path of that input (None: stdout / temporary)
        self.alts = {}          # requested output path -> acceptable alternatives (first = the path itself)
        self.steps = []         # (step kind, slot or None)
        self.nat_fail = []      # (step kind, slot) steps that fail by themselves
        for i, k in enumerate(kinds):
            bk = base_kind(k)
            if k in C_KINDS:
                self.steps.append(("cc1", i))
                if cc1_fails(k, mode):
                    self.nat_fail.append(("cc1", i))
                if mode == "E":
                    self.tu_out[i] = opath
                elif mode == "S":
                    self.tu_out[i] = None if self.o == "dash" else (opath or self._default_out(i, ".s"))
                elif mode == "c":
                    self.steps.append(("as", i))
                    if bk == "c_asm":
                        self.nat_fail.append(("as", i))
                    self.tu_out[i] = opath or self._default_out(i, ".o")
                else:
                    self.steps.append(("as", i))
                    if bk == "c_asm":
                        self.nat_fail.append(("as", i))
                    self.tu_out[i] = None
            elif k in S_KINDS:
                if mode in ("c", "link"):
                    self.steps.append(("as", i))
                    if bk != "s":
                        self.nat_fail.append(("as", i))
                    self.tu_out[i] = (opath or self._default_out(i, ".o")) if mode == "c" else None
            elif k in O_KINDS:
                if mode == "link" and k != "o":
                    self.nat_fail.append(("ld", None))
            elif k == "unk":
                if mode == "link":      # at the latest the linker rejects it
                    self.nat_fail.append(("ld", None))
        if mode == "link":
            self.steps.append(("ld", None))
            self.final = opath or self._cwd("a.out")
        else:
            self.final = None

        # requested outputs on success
        outs = []
        self.shared = {}        # output path -> slots of the translation units it is the output of, if several
        for i in sorted(self.tu_out):
            p = self.tu_out[i]
            if p and p not in outs:
                outs.append(p)
            elif p:
                self.shared.setdefault(p, [j for j in sorted(self.tu_out) if self.tu_out[j] == p])
        if self.final:
            outs.append(self.final)
        self.outputs = outs

        # dependency files (-MD): one per C translation unit, [(acceptable paths, slot)]
        self.deps = []
        if self.md:
            nc = 0
            for i, k in enumerate(kinds):
                if k not in C_KINDS:
                    continue
                nc += 1
                if self.md == "MF":
                    self.deps.append(((self._cwd(MF_NAME),), i))
                    continue
                ibases = name_bases(self.inputs[i])
                cands = []
                if o_arg:
                    odir = os.path.dirname(o_arg)
                    for ob in name_bases(o_arg):
                        for d in ("", odir):
                            cands.append(os.path.join(d, ob + ".d"))
                            cands += [os.path.join(d, "%s-%s.d" % (ob, ib)) for ib in ibases]
                elif mode == "link":
                    cands += ["a-%s.d" % ib for ib in ibases]
                cands += [ib + ".d" for ib in ibases]
                alts = []
                for c in cands:
                    if self._cwd(c) not in alts:
                        alts.append(self._cwd(c))
                self.deps.append((tuple(alts), i))
            if any(k in STDIN_KINDS for k in kinds):
                self.defined, self.why_undefined = False, "-MD with standard input: no input name to derive from"
            if mode == "E" and self.o == "file":
                # -E -MD -o x: x names the preprocessed text for one driver and the dependency file for another
                self.defined, self.why_undefined = False, "-E -MD -o: what -o names is not defined by the property"

        # must the command succeed?   True / False / None (the property does not say)
        ok = True
        # the driver must refuse the command itself (a bad option): no step is to blame
        # (-x names the language of the inputs that FOLLOW it: as the last word it may go unexamined - gcc does that)
        self.driver_refuses = any(k in OPT_KINDS and not (k == "opt_badx" and i == len(kinds) - 1) for i, k in enumerate(kinds))
        if self.nat_fail or self.driver_refuses:
            ok = False
        elif "opt_badx" in kinds:
            ok = None
        if self.outloc == "unw" and outs:
            ok = False
        # inputs a correct driver may either ignore or reject: status undefined
        for i, k in enumerate(kinds):
            ignored = (k in S_KINDS and mode == "S") or (k in O_KINDS and mode in ("S", "c")) or (k == "unk" and mode != "link")
            if ignored and base_kind(k) not in ("s", "o") and ok:
                ok = None
        self.usage_conflict = bool(self.o) and mode != "link" and sum(1 for k in kinds if k not in OPT_KINDS) > 1
        if self.usage_conflict:
            # several inputs and one -o outside link mode: drivers reject this or not depending on how many of
            # the inputs produce output (and on whether "-lm" counts); the property does not say, so success is
            # never required here.
            ok = None if ok else ok
        # two translation units whose default output names coincide: same freedom
        self.name_collision = bool(self.shared) and not self.o
        if self.name_collision:
            ok = None if ok else ok
        self.ok = ok

    # ------------------------------------------------------------------
    def inputs_at(self, absroot):
        return [a.replace(ABS, absroot) for a in self.inputs]

    def argv(self, absroot="$ABS"):
        a = []
        if self.mode != "link":
            a.append("-" + self.mode)
        if self.x:
            a += ["-xc"] if self.x == "c" else ["-x", "assembler"]
        if self.md:
            a.append("-MD")
            if self.md == "MF":
                a += ["-MF", MF_NAME]
        ins = self.inputs_at(absroot)
        if self.o:
            oa = ["-o", "-" if self.o == "dash" else self.o_arg]
            if self.opos:
                return a + ins[:self.opos] + oa + ins[self.opos:]
            a += oa
        return a + ins

    def main_slot(self):
        """The unit that defines main(): the first input that is not a library argument."""
        return next((i for i, k in enumerate(self.kinds) if k != "lib" and k not in DRIVER_FAULT_KINDS), 0)

    def mat_key(self, kind, slot):
        """Key of the prepared text of (kind, slot): the classic name, prefixed when main() has moved there."""
        return ("main:" if slot and slot == self.main_slot() else "") + in_name(base_kind(kind), slot)

    def materials(self):
        """[(path relative to the tree root, kind, key of the text)] of the input files to create; kind decides
        what it is (c_dir: a directory, *_nx: nothing)."""
        return [(p, base_kind(k), self.mat_key(k, i)) for i, (p, k) in enumerate(zip(self.in_files, self.kinds)) if p is not None]

    def stdin_material(self):
        """(kind, key of the text) that arrives on standard input, or None."""
        for i, k in enumerate(self.kinds):
            if k in STDIN_KINDS:
                return STDIN_KINDS[k], self.mat_key(k, i)
        return None

    def layout_dirs(self):
        return LAYOUT_DIRS if self.cwd_rel else ()

    def possible_outputs(self):
        """Every path the command could legitimately write (used for sentinel / unwritable set-up)."""
        return list(self.outputs)

    def allowed_paths(self):
        """Every path a correct run may create or change."""
        res = set()
        for p in self.outputs:
            res.update(self.alts.get(p, (p,)))
        for alts, _ in self.deps:
            res.update(alts)
        return res

    def failed_tu_outputs(self, faulted_slots=()):
        """Output paths that belong to a translation unit that fails to compile (by its nature or by an injected
        front-end fault).  In link mode the executable is the output of all its translation units."""
        res = set()
        for i, k in enumerate(self.kinds):
            if k in C_KINDS and (cc1_fails(k, self.mode) or i in faulted_slots):
                p = self.tu_out.get(i)
                if p:
                    res.add(p)
                if self.mode == "link":
                    res.add(self.final)
        return res

    def slot_of_input(self, path):
        """Slot of the input a step's argument names: the argument as written on the command line, else (classic
        layout) by its last component when that is unambiguous."""
        for i, a in enumerate(self.inputs):
            if a == path or (a.startswith(ABS) and path.endswith(a[len(ABS):])):
                return i
        b = os.path.basename(path)
        hits = [i for i, a in enumerate(self.inputs) if os.path.basename(a) == b and self.in_files[i] is not None]
        return hits[0] if len(hits) == 1 else None


def enumerate_shapes(kinds_by_len, modes=("E", "S", "c", "link"), os_=(None, "file", "dash"), outlocs=("w", "sent", "unw")):
    """kinds_by_len: {length: [kind, ...]} - all lists of that length over that alphabet."""
    import itertools
    for mode in modes:
        for o in os_:
            for n in sorted(kinds_by_len):
                for kinds in itertools.product(kinds_by_len[n], repeat=n):
                    for outloc in outlocs:
                        yield Shape(mode, o, kinds, outloc)
