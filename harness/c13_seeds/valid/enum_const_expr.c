enum { A = 1 << 2, B = A | 1, C = sizeof(int) * 2, D = (B > 3) ? 10 : 20 };
int arr[C];
int x = A / 2 + B % 3;
char y[D - 9];
