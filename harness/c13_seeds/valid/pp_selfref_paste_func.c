#define fx(a) f ## x(a)
int fx(int);
