"""C19 -E output is a faithful program.

(i)  All ordered pairs of a token alphabet covering every punctuator-prefix relation and every lexical class are made
     adjacent in every way the preprocessor can create adjacency (source, object-like macro on either/both sides,
     no white space between a token and a macro name, function-like macro result followed directly by a token,
     empty expansions in between, parameter substitution); the -E text is re-lexed with an independent C11 pp-token
     lexer and must give exactly [t1, t2] for every case (not fused, not split, not dropped).
(ii) -E of the -E output is byte-identical.
(iii) For a closed corpus (the tree's own sources, its test programs, generated operator-adjacency programs)
     -S of the original equals -S of its -E output modulo .loc/.file lines.
"""
import os, re, itertools, hashlib
from vlib import core
from models import pplex

LEVEL = "exploration"
BUDGET = {"quick": 900, "thorough": 3600}     # deadlines, not expected times

PUNCT = ["+", "++", "+=", "-", "--", "-=", "->", ">", ">>", ">=", ">>=", "<", "<<", "<=", "<<=", "=", "==", "!", "!=", "&", "&&", "&=",
         "|", "||", "|=", ".", "...", "/", "/=", "*", "*=", "%", "%=", "^", "^=", "#", "##", ":", "?", ";", ",", "(", ")", "[", "]", "{", "}", "~"]
IDENT = ["x", "u8", "u", "U", "L", "e", "p", "_1", "\u00e9t\u00e9", "x\U0001d6fc", "\\u00e9t", "v\\U0001D6FC"]
NUM = ["1", "1.", ".5", "0x1p3", "1e3", "1u", "0x1", "1.f", "0"]
STR = ['"s"', "'c'", 'L"w"', "u8\"s\"", "L'c'", '""']
ALPHA = PUNCT + IDENT + NUM + STR


def is_ident(t): return re.match(r"^(?:[A-Za-z_\u0080-\U0010ffff]|\\u[0-9A-Fa-f]{4}|\\U[0-9A-Fa-f]{8})(?:\w|[\u0080-\U0010ffff]|\\u[0-9A-Fa-f]{4}|\\U[0-9A-Fa-f]{8})*$", t) is not None
def is_num(t): return t[0].isdigit() or (t[0] == "." and len(t) > 1 and t[1].isdigit())


def constructions(t1, t2, i, tier):
    """Yield (kind, defs, line) such that after preprocessing the line's tokens must be [t1, t2]."""
    L, R, E, ID, P2 = "ML%d" % i, "MR%d" % i, "ME%d" % i, "MI%d" % i, "MP%d" % i
    body_ok1 = t1 not in ("#", "##")      # object-like bodies may not start/end with ## ; # alone is fine but keep it simple
    body_ok2 = t2 not in ("#", "##")
    arg_ok1 = t1 not in (",", "(", ")")
    arg_ok2 = t2 not in (",", "(", ")")
    glue1 = not (is_ident(t1) or is_num(t1))     # t1 directly followed by an identifier stays a separate token
    yield "src", "", "%s %s" % (t1, t2)
    if body_ok2:
        yield "t1 R", "#define %s %s\n" % (R, t2), "%s %s" % (t1, R)
        if glue1:
            yield "t1R", "#define %s %s\n" % (R, t2), "%s%s" % (t1, R)
    if body_ok1:
        yield "L t2", "#define %s %s\n" % (L, t1), "%s %s" % (L, t2)
    if body_ok1 and body_ok2:
        yield "L R", "#define %s %s\n#define %s %s\n" % (L, t1, R, t2), "%s %s" % (L, R)
    if arg_ok1:
        yield "ID(t1)t2", "#define %s(x) x\n" % ID, "%s(%s)%s" % (ID, t1, t2)
        if body_ok2:
            yield "ID(t1)R", "#define %s(x) x\n#define %s %s\n" % (ID, R, t2), "%s(%s)%s" % (ID, t1, R)
    yield "t1 E t2", "#define %s\n" % E, "%s %s %s" % (t1, E, t2)
    if glue1:
        yield "t1E t2", "#define %s\n" % E, "%s%s %s" % (t1, E, t2)
    if arg_ok1 and arg_ok2:
        yield "P(t1,t2)", "#define %s(x,y) x y\n" % P2, "%s(%s,%s)" % (P2, t1, t2)
        yield "P(t1,t2)nosp", "#define %s(x,y) x/**/y\n" % P2, "%s(%s,%s)" % (P2, t1, t2)
    # white space that is not a blank: a comment, a tab, a form feed, a vertical tab between the two tokens
    if not t1.endswith("/"):      # `//**/` would start a line comment
        yield "t1/**/t2", "", "%s/**/%s" % (t1, t2)
    yield "t1<tab>t2", "", "%s\t%s" % (t1, t2)
    yield "t1<ff>t2", "", "%s\f%s" % (t1, t2)
    if not (t2[0].isalnum() or t2[0] in "_\\" or ord(t2[0]) > 127):
        # a blank, an empty macro, then t2 written directly after the macro name
        yield "t1 Et2", "#define %s\n" % E, "%s %s%s" % (t1, E, t2)
        yield "t1 E/**/t2", "#define %s\n" % E, "%s %s/**/%s" % (t1, E, t2)
    if arg_ok1 and arg_ok2:
        # a line break inside a macro argument / between arguments / before the closing parenthesis
        # (a `#` that starts a line inside an argument list would be a directive: undefined, C11 6.10.3p11 - not generated)
        if t2 != "#":
            yield "ID(t1<nl>t2)", "#define %s(x) x\n" % ID, "%s(%s\n%s)" % (ID, t1, t2)
            yield "P(t1,<nl>t2)", "#define %s(x,y) x y\n" % P2, "%s(%s,\n%s)" % (P2, t1, t2)
        if t1 != "#":
            yield "ID(<nl>t1<nl>)t2", "#define %s(x) x\n" % ID, "%s(\n%s\n)%s" % (ID, t1, t2)
    if tier == "thorough":
        if arg_ok1 and arg_ok2:
            yield "ID(t1)ID(t2)", "#define %s(x) x\n" % ID, "%s(%s)%s(%s)" % (ID, t1, ID, t2)
            yield "ID(ID(t1))t2", "#define %s(x) x\n" % ID, "%s(%s(%s))%s" % (ID, ID, t1, t2)
            yield "ID(t1 E)t2", "#define %s(x) x\n#define %s\n" % (ID, E), "%s(%s %s)%s" % (ID, t1, E, t2)
        if glue1 and body_ok2:
            yield "t1E R", "#define %s\n#define %s %s\n" % (E, R, t2), "%s%s %s" % (t1, E, R)
        yield "t1 E E t2", "#define %s\n" % E, "%s %s %s %s" % (t1, E, E, t2)


def valid_pair(t1, t2):
    # `#`/`##` only make sense as ordinary tokens away from line start; we always prefix a marker so that is fine.
    return True


def canon(tok):
    """identifier spellings are compared modulo UCN <-> UTF-8 (either spelling denotes the same identifier)"""
    if "\\u" in tok or "\\U" in tok:
        return re.sub(r"\\u([0-9A-Fa-f]{4})|\\U([0-9A-Fa-f]{8})", lambda m: chr(int(m.group(1) or m.group(2), 16)), tok)
    return tok


def _run_file(args):
    chibicc, wd, fidx, cases = args
    os.makedirs(wd, exist_ok=True)
    src = os.path.join(wd, "p%d.c" % fidx)
    text = "".join(defs + "VPMARK%d %s\n" % (i, line) for i, (cid, defs, line, exp) in enumerate(cases)) + "VPMARK%d\n" % len(cases)
    with open(src, "w") as f:
        f.write(text)
    st, out, err = core.run_limited([chibicc, "-cc1", "-E", "-cc1-input", src, src], cwd=wd, timeout=60)
    if st != 0:
        return fidx, "fail", st, err, None
    toks = pplex.lex(out)
    got, cur = {}, None
    for t in toks:
        m = re.match(r"^VPMARK(\d+)$", t)
        if m:
            cur = int(m.group(1)); got[cur] = []
        elif cur is not None:
            got[cur].append(t)
    bad = []
    for i, (cid, defs, line, exp) in enumerate(cases):
        g = got.get(i)
        if g is None or [canon(t) for t in g] != [canon(t) for t in exp]:
            bad.append((i, g))
    # idempotence
    src2 = os.path.join(wd, "p%d.i.c" % fidx)
    with open(src2, "w") as f:
        f.write(out)
    st2, out2, err2 = core.run_limited([chibicc, "-cc1", "-E", "-cc1-input", src2, src2], cwd=wd, timeout=60)
    idem = (st2 == 0 and out2 == out)
    return fidx, "ok", bad, idem, (st2, err2[:200])


def strip_asm(s):
    return "\n".join(l for l in s.splitlines() if not re.match(r"\s*\.(loc|file)\b", l))


def _roundtrip(args):
    chibicc, wd, name, path, flags, cwd = args
    os.makedirs(wd, exist_ok=True)
    base = os.path.join(wd, "r" + hashlib.sha1(name.encode()).hexdigest()[:16])
    st, out, err = core.run_limited([chibicc, "-cc1", "-E"] + flags + ["-cc1-input", path, path], cwd=cwd, timeout=120)
    if st != 0:
        return name, "skip-E-fails", err[:200]
    with open(base + ".i.c", "w") as f:
        f.write(out)
    st1, o1, e1 = core.run_limited([chibicc, "-cc1"] + flags + ["-cc1-input", path, "-cc1-output", base + ".1.s", path], cwd=cwd, timeout=120)
    if st1 != 0:
        return name, "skip-S-fails", e1[:200]
    st2, o2, e2 = core.run_limited([chibicc, "-cc1", "-cc1-input", base + ".i.c", "-cc1-output", base + ".2.s", base + ".i.c"], cwd=cwd, timeout=120)
    if st2 != 0:
        return name, "E-output-rejected", e2[:300]
    a, b = strip_asm(open(base + ".1.s").read()), strip_asm(open(base + ".2.s").read())
    st3, out3, e3 = core.run_limited([chibicc, "-cc1", "-E", "-cc1-input", base + ".i.c", base + ".i.c"], cwd=cwd, timeout=120)
    idem = st3 == 0 and out3 == out
    if a != b:
        al, bl = a.splitlines(), b.splitlines()
        k = next((i for i in range(min(len(al), len(bl))) if al[i] != bl[i]), min(len(al), len(bl)))
        return name, "asm-differs", "line %d: %r vs %r" % (k, al[k] if k < len(al) else None, bl[k] if k < len(bl) else None)
    if not idem:
        return name, "not-idempotent", ""
    return name, "ok", ""


BOPS = ["+", "-", "*", "/", "%", "&", "|", "^", "<", ">", "<=", ">=", "==", "!=", "<<", ">>", "&&", "||", "=", "+=", "-=", ","]
UOPS = ["-", "+", "!", "~", "*", "&", "++", "--", "- -", "sizeof", "(int)"]


def adjacency_programs():
    """Programs whose meaning depends on the separation of an operator and the first token of an adjacent expansion."""
    progs = []
    for k, name in enumerate(["\u00e9t\u00e9", "lerp_\U0001d6fc", "x\u20ac", "\\u00e9t", "w\\U0001D6FC", "\U00020000z"]):
        progs.append(("adj\tident\t%d\tglobal" % k, "int %s = %d;\nint get%d(void) { return %s + 1; }\n" % (name, k, k, name)))
        progs.append(("adj\tident\t%d\tmacro" % k, "#define NAME %s\nint NAME(int a) { return a; }\nint call%d(void) { return NAME(2); }\n" % (name, k)))
    for bi, b in enumerate(BOPS[:8]):
        for ui, u in enumerate(("-", "+", "++", "--", "&", "*")):
            opnd = {"*": "*p", "&": "*&b", "++": "++b", "--": "--b"}.get(u, "%s b" % u)
            for form, txt in (("comment", "a %s/* c */%s" % (b, opnd)), ("nl-in-arg", "ID(a %s\n%s)" % (b, opnd)), ("tab", "a %s\t%s" % (b, opnd)),
                              ("E-glued", "a %s E%s" % (b, opnd)), ("ff", "a %s\f%s" % (b, opnd))):
                progs.append(("adj\t%s\t%s\t%s" % (b, u, form),
                              "#define ID(x) x\n#define E\nint f%d_%d(int a, int b, int *p) { return (%s); }\n" % (bi, ui, txt)))
    for bi, b in enumerate(BOPS):
        for ui, u in enumerate(UOPS):
            opnd = {"*": "*p", "&": "*&b", "++": "++b", "--": "--b"}.get(u, "%s b" % u)
            lhs = "a" if b not in ("=", "+=", "-=") else "a"
            for form in ("M", " M", "ID(M)", "E M"):
                src = ("#define M %s\n#define ID(x) x\n#define E\nint f%d_%d(int a, int b, int *p) { return (%s %s%s); }\n"
                       % (opnd, bi, ui, lhs, b, form))
                progs.append(("adj\t%s\t%s\t%s" % (b, u, form.strip() or "M"), src))
    return progs


def history_programs(gd, tier):
    """Programs in which the text -E prints for a token depends on what was processed before it (string-valued dynamic
    macros in several files, a string macro used as a computed #include operand and in the text) or on the amount
    of output produced so far (one very long token after n short ones).  Returns [(name, path of the primary file)]."""
    out = []
    def put(d, fn, text):
        os.makedirs(d, exist_ok=True)
        with open(os.path.join(d, fn), "w") as f:
            f.write(text)
    # (a) every sequence of <= 3 (thorough 4) steps over uses of __FILE__ / __BASE_FILE__ in the primary file and in two headers
    steps = {"m": "const char *m%d = __FILE__;\n", "b": "const char *b%d = __BASE_FILE__;\n", "h": '#include "h1.h"\n', "k": '#include "sub/h2.h"\n',
             "f": "const char *f%d(void) { return __FILE__ __FILE__; }\n"}
    n = 0
    for L in range(1, (4 if tier == "thorough" else 3) + 1):
        for seq in itertools.product("mbhkf", repeat=L):
            if seq.count("h") > 1 or seq.count("k") > 1:
                continue
            d = os.path.join(gd, "fa%d" % n)
            put(d, "h1.h", "static const char *h1a(void) { return __FILE__; }\nstatic const char *h1b(void) { return __BASE_FILE__; }\n")
            put(os.path.join(d, "sub"), "h2.h", "static const char *h2a(void) { return __FILE__ \"+\" __FILE__; }\n")
            put(d, "main.c", "".join(steps[c] % i if "%d" in steps[c] else steps[c] for i, c in enumerate(seq)))
            out.append(("hist\tfile-macros\t%s" % "".join(seq), os.path.join(d, "main.c")))
            n += 1
    # (b) a string-valued macro as the operand of #include and in the program text, every order of <= 4 steps
    st2 = {"D": '#define HDR "inc%d.h"\n', "I": "#include HDR\n", "U": "const char *u%d = HDR;\n", "S": "#define STR(x) #x\n#define XSTR(x) STR(x)\nconst char *s%d = XSTR(HDR);\n",
           "R": '#undef HDR\n#define HDR "inc%d.h"\n'}
    for L in range(2, (5 if tier == "thorough" else 4) + 1):
        for seq in itertools.product("IUSR", repeat=L - 1):
            if seq.count("S") > 1 or "I" not in seq:
                continue
            seq = ("D",) + seq
            d = os.path.join(gd, "fb%d" % n)
            for i in range(len(seq)):
                put(d, "inc%d.h" % i, "int from_inc%d_%d;\n" % (i, n))
            text = ""
            for i, c in enumerate(seq):
                t = st2[c]
                if c == "S" and i != seq.index("S"):
                    continue
                text += (t % i) if "%d" in t else t
            put(d, "main.c", text.replace("int from", "int from"))
            # the header included is the one named by the latest definition: give every inc*.h a distinct object name
            out.append(("hist\tinclude-macro\t%s" % "".join(seq), os.path.join(d, "main.c")))
            n += 1
    # (c) one long token of every class after n short tokens: lengths around the powers of two a buffered writer could use
    lens = [100, 1023, 1024, 1025, 4094, 4095, 4096, 4097, 4098, 5000, 8191, 8192, 8193, 16384, 16385, 65536, 65537, 70000]
    if tier == "quick":
        lens = [100, 1024, 4095, 4096, 4097, 5000, 8192, 8193, 65537]
    for ln in lens:
        for before in (0, 1, 7, 300, 1500):
            pre = "".join("int p%d;\n" % i for i in range(before))
            toks = {"string": 'const char s[] = "%s";\n' % ("a" * (ln - 2)),
                    "wide-string": 'const int w[] = L"%s";\n' % ("b" * (ln - 3)),
                    "ident": "int %s = 3;\nint *q = &%s;\n" % ("i" * ln, "i" * ln),
                    "number": "double d = 0.%s1;\n" % ("0" * (ln - 3)),
                    "string-from-macro": '#define S "%s"\nconst char s[] = S;\nconst char t[] = S S;\n' % ("c" * (ln - 2)),
                    "stringized": "#define STR(x) #x\nconst char s[] = STR(%s);\n" % ("d" * ln)}
            for kind, t in toks.items():
                d = os.path.join(gd, "fc%d" % n)
                put(d, "main.c", pre + t + "int after_%d;\n" % n)
                out.append(("hist\tlong-token\t%s/len=%d/after=%d" % (kind, ln, before), os.path.join(d, "main.c")))
                n += 1
    return out


def run(ctx):
    tier = ctx.tier
    # ---------- (i) + (ii): token pairs ----------
    cases = []
    n = 0
    for t1 in ALPHA:
        for t2 in ALPHA:
            for kind, defs, line in constructions(t1, t2, n, tier):
                cases.append(((kind, t1, t2), defs, line, [t1, t2]))
                n += 1
    if tier == "thorough":   # triples with an empty middle: t1 E t2 E t3 over the punctuator-prefix alphabet
        for t1, t2, t3 in itertools.product(PUNCT[:35], repeat=3):
            cases.append((("triple", t1, t2 + " " + t3), "#define ME%d\n" % n, "%s ME%d %s ME%d %s" % (t1, n, t2, n, t3), [t1, t2, t3]))
            n += 1
    files = core.chunks(cases, 400)
    args = [(ctx.chibicc, os.path.join(ctx.work, "pf"), i, f) for i, f in enumerate(files)]
    res = core.pmap(_run_file, args)
    judged = 0
    kinds_bad = {}

    def report_case(c, got):
        cid, defs, line, exp = c
        kind, t1, t2 = cid
        t2 = t2.split()[0]
        if got is None:
            dev = "missing"
        elif "".join(got) == "".join(exp) and len(got) < len(exp):
            dev = "fused"
        elif len(got) < len(exp):
            dev = "dropped"
        elif len(got) > len(exp):
            dev = "split-or-extra"
        else:
            dev = "changed"
        cls = lambda t: "str" if t[-1] in "\"'" else "ident" if is_ident(t) else "num" if is_num(t) else "punct"
        sig = "C19|pair|%s|%s,%s|%s" % (kind, cls(t1), cls(t2), dev)
        text = defs + "VPMARK0 " + line + "\nVPMARK1\n"
        ctx.violation(sig, "%s: %r -> re-lexed %r, expected %r" % ("/".join(cid), line, got, exp),
                      files={"p.c": text, "expected.txt": " ".join(exp) + "\n", "pplex.py": open(os.path.join(core.VERIF, "models/pplex.py")).read()},
                      replay="$CHIBICC -cc1 -E -cc1-input p.c p.c > out.txt 2>/dev/null || exit 1\n"
                             "python3 -c \"import pplex,sys; t=pplex.lex(open('out.txt').read()); i=t.index('VPMARK0'); j=t.index('VPMARK1'); "
                             "sys.exit(0 if t[i+1:j]==open('expected.txt').read().split() else 1)\"")

    for fidx, status, a, b, c in res:
        fcases = files[fidx]
        if status == "fail":
            # bisect: run each case alone
            for one in fcases:
                r = _run_file((ctx.chibicc, os.path.join(ctx.work, "pf1"), 0, [one]))
                judged += 1
                if r[1] == "fail":
                    cid = one[0]
                    first = (r[3].strip().splitlines() or [""])[0]
                    kind, t1, t2 = cid
                    t2 = t2.split()[0]
                    cls = lambda t: "str" if t[-1] in "\"'" else "ident" if is_ident(t) else "num" if is_num(t) else "punct"
                    ctx.violation("C19|pair|%s|%s,%s|E-fails:%s" % (kind, cls(t1), cls(t2), "signal" if isinstance(r[2], int) and r[2] < 0 else "rejected"),
                                  "%s: -E fails on valid pp-token sequence %r: %s" % ("/".join(cid), one[2], first[-120:]),
                                  files={"p.c": one[1] + "VPMARK0 " + one[2] + "\nVPMARK1\n"},
                                  replay="$CHIBICC -cc1 -E -cc1-input p.c p.c > /dev/null 2>&1 && exit 0; exit 1")
                else:
                    for i, got in r[2]:
                        report_case(one, got)
            continue
        judged += len(fcases)
        # A fused pair can open a comment or string that swallows the following cases of the same file: judge every
        # failing case again alone; packed-only failures after an earlier genuine failure are collateral damage.
        earlier_genuine = False
        for i, got in a:
            r = _run_file((ctx.chibicc, os.path.join(ctx.work, "pf1"), 0, [fcases[i]]))
            if r[1] == "ok" and not r[2]:
                if not earlier_genuine:
                    ctx.violation("C19|chaining|%s" % fcases[i][0][0], "case passes alone but fails after the preceding cases of its file: %r got %r"
                                  % (fcases[i][2], got), files={"p.c": "".join(d + "VPMARK%d %s\n" % (k, l) for k, (cid, d, l, e) in enumerate(fcases[:i + 1])) + "VPMARK%d\n" % (i + 1)},
                                  replay="$CHIBICC -cc1 -E -cc1-input p.c p.c | tail -2 | head -1 | grep -q 'VPMARK%d' && exit 1; exit 0" % (i + 1))
                continue
            earlier_genuine = True
            if r[1] == "fail":
                report_case(fcases[i], None)
            else:
                report_case(fcases[i], r[2][0][1])
        if not b:
            ctx.violation("C19|idempotence|pairs", "-E of the -E output differs (file %d of generated pair cases): %s" % (fidx, c),
                          files={"p.c": "".join(d + "VPMARK%d %s\n" % (i, l) for i, (cid, d, l, e) in enumerate(fcases))},
                          replay="$CHIBICC -cc1 -E -cc1-input p.c p.c > a.c || exit 0; $CHIBICC -cc1 -E -cc1-input a.c a.c > b.c || exit 1; cmp -s a.c b.c && exit 0; exit 1")
    ctx.cover(pair_cases=len(cases), alphabet=len(ALPHA))

    # ---------- (iii): -S(original) == -S(-E output) on a closed corpus ----------
    jobs = []
    wd = os.path.join(ctx.work, "rt")
    for f in sorted(os.listdir(ctx.tree)):
        if f.endswith(".c"):
            jobs.append((ctx.chibicc, wd, "src/" + f, os.path.join(ctx.tree, f), [], ctx.tree))
    tdir = os.path.join(ctx.tree, "test")
    for f in sorted(os.listdir(tdir)):
        if f.endswith(".c"):
            jobs.append((ctx.chibicc, wd, "test/" + f, os.path.join(tdir, f), ["-I" + tdir], tdir))
    gd = ctx.mkdir("adj")
    progs = adjacency_programs()
    for k, (name, src) in enumerate(progs):
        p = os.path.join(gd, "a%d.c" % k)
        with open(p, "w") as f:
            f.write(src)
        jobs.append((ctx.chibicc, wd, name, p, [], gd))
    hprogs = history_programs(ctx.mkdir("hist"), tier)
    for name, p in hprogs:
        jobs.append((ctx.chibicc, wd, name, p, [], os.path.dirname(p)))
    res = core.pmap(_roundtrip, jobs, chunksize=8)
    nrt = 0
    skipped = 0
    skipped_names = []
    for (name, status, detail), job in zip(res, jobs):
        if status.startswith("skip"):
            skipped += 1
            skipped_names.append("%s: %s %s" % (name.replace("\t", " "), status, detail[:80].replace("\n", " ")))
            continue
        nrt += 1
        if status == "ok":
            continue
        fam = "adj" if name.startswith("adj\t") else "hist" if name.startswith("hist\t") else name.split("/")[0]
        if fam == "hist":
            _, hfam, desc = name.split("\t", 2)
            sig = "C19|roundtrip|%s|%s|%s" % (hfam, desc.split("/")[0] if hfam == "long-token" else "history", status)
        elif fam == "adj":
            _, b, u, form = name.split("\t", 3)
            sig = "C19|roundtrip|adj|%s|%s" % (form, status)
        else:
            sig = "C19|roundtrip|%s|%s" % (name, status)
        src = open(job[3], errors="replace").read()
        files = {"p.c": src} if fam == "adj" else {"name.txt": name + "\n"}
        if fam == "hist":
            hd = os.path.dirname(job[3])
            files = {}
            for root, _, fns in os.walk(hd):
                for fn in fns:
                    files[os.path.relpath(os.path.join(root, fn), hd).replace("/", "__")] = open(os.path.join(root, fn), errors="replace").read()
            rp = ("d=$(mktemp -d) && trap 'rm -rf $d' EXIT; for f in *; do case $f in replay.sh|info.json) ;; *) t=$(echo $f | sed 's|__|/|g'); mkdir -p $d/$(dirname $t); cp $f $d/$t;; esac; done; cd $d\n"
                  "$CHIBICC -cc1 -E -cc1-input main.c main.c > i.c || exit 0\n$CHIBICC -cc1 -cc1-input main.c -cc1-output 1.s main.c || exit 0\n"
                  "$CHIBICC -cc1 -cc1-input i.c -cc1-output 2.s i.c || exit 1\n"
                  "grep -v '^ *\\.\\(loc\\|file\\)' 1.s > 1.t; grep -v '^ *\\.\\(loc\\|file\\)' 2.s > 2.t; cmp -s 1.t 2.t || exit 1\n"
                  "$CHIBICC -cc1 -E -cc1-input i.c i.c > j.c; cmp -s i.c j.c || exit 1; exit 0")
        elif fam == "adj":
            rp = ("$CHIBICC -cc1 -E -cc1-input p.c p.c > i.c || exit 0\n$CHIBICC -cc1 -cc1-input p.c -cc1-output 1.s p.c || exit 0\n"
                  "$CHIBICC -cc1 -cc1-input i.c -cc1-output 2.s i.c || exit 1\n"
                  "grep -v '^ *\\.\\(loc\\|file\\)' 1.s > 1.t; grep -v '^ *\\.\\(loc\\|file\\)' 2.s > 2.t; cmp -s 1.t 2.t || exit 1\n"
                  "$CHIBICC -cc1 -E -cc1-input i.c i.c > j.c; cmp -s i.c j.c || exit 1; exit 0")
        else:
            rel = name.split("/", 1)[1]
            sub = "" if fam == "src" else "test/"
            rp = ("cd $CHIBICC_DIR/%s && d=$(mktemp -d) && trap 'rm -rf $d' EXIT\n"
                  "$CHIBICC -cc1 -E -I. -cc1-input %s %s > $d/i.c || exit 0\n$CHIBICC -cc1 -I. -cc1-input %s -cc1-output $d/1.s %s || exit 0\n"
                  "$CHIBICC -cc1 -cc1-input $d/i.c -cc1-output $d/2.s $d/i.c || exit 1\n"
                  "grep -v '^ *\\.\\(loc\\|file\\)' $d/1.s > $d/1.t; grep -v '^ *\\.\\(loc\\|file\\)' $d/2.s > $d/2.t; cmp -s $d/1.t $d/2.t || exit 1\n"
                  "$CHIBICC -cc1 -E -cc1-input $d/i.c $d/i.c > $d/j.c; cmp -s $d/i.c $d/j.c || exit 1; exit 0") % (sub, rel, rel, rel, rel)
        ctx.violation(sig, "%s: %s %s" % (name.replace("\t", " "), status, detail), files=files, replay=rp)
    distinct = len(set(c[0] for c in cases))
    ctx.cover(evaluations=judged + nrt, distinct_nontrivial=distinct + nrt, roundtrip_programs=nrt, roundtrip_skipped=skipped, roundtrip_skipped_programs=skipped_names[:20],
              rule="pair case = (adjacency construction, t1, t2) over a %d-token alphabet, all ordered pairs; judged by re-lexing the -E text; "
                   "round-trip case = one program (tree sources, test/*.c, operator x unary-operator x adjacency-form programs, history programs: "
                   "every sequence of <= 3-4 uses of __FILE__/__BASE_FILE__ in the primary file and two headers, every order of define / computed #include / "
                   "text use / stringized use / redefinition of a string-valued macro, one long token of 6 classes x lengths around 1024..65537 after 0..1500 short tokens) "
                   "compiled directly and via its -E output" % len(ALPHA), roundtrip_history_programs=len(hprogs))
    if judged < 1000 or nrt < 50:
        raise core.HarnessError("vacuous: judged=%d roundtrips=%d" % (judged, nrt))
    for c in (cases[5], cases[len(cases) // 2], cases[-1]):
        ctx.sample({"case": list(c[0]), "defs": c[1], "line": c[2], "expected_tokens": c[3]})
    ctx.sample({"roundtrip": progs[37][0], "source": progs[37][1]})
    ctx.assume("the re-lexer implements C11 6.4 pp-tokens without digraphs/trigraphs; pp-numbers that are not valid constants are not in the alphabet (C09 covers them)")
    ctx.assume("-S equality is judged modulo .loc/.file lines only; the corpus is closed (tree sources, test programs, generated adjacency programs)")
