#line 3 4
