extern int rep_var;
