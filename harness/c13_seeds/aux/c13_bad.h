int ok;
int bad = ;
