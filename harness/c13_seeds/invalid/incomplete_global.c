struct S s;
