#error stop
