int a[-1];
