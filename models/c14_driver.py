"""Reference model of a C compiler driver's pipeline, for property C14.

The model describes what a *correct* driver does for a command shape

    (mode, o, kinds, outloc)

  mode    "E" | "S" | "c" | "link"
  o       None (no -o) | "file" (-o <path>) | "dash" (-o -, standard output; judged for -E and -S only)
  kinds   tuple of input kinds, one per input slot (length 1..3)
  outloc  "w" (fresh writable directory) | "sent" (every possible output path pre-exists with sentinel
          content) | "unw" (-o: path inside a directory that does not exist; no -o: every default output name
          is an existing directory)

and yields: the files to create before the run, the argv, the expected subprocess steps, the per-TU output paths,
the set of requested outputs, and whether the command must succeed.  Nothing here looks at chibicc's sources;
only conventional cc semantics that property C14 relies on are modelled, and everything the property does not
define is marked undefined (`ok=None`) or `defined=False` so the checker never judges it.
"""

SENTINEL = b"C14-SENTINEL-CONTENT\n"

# kind -> (extension, exists, what it is)
KINDS = {
    "c":       ".c",   # compiles
    "c_pp":    ".c",   # #error: the front end fails in every mode
    "c_parse": ".c",   # syntax error: front end fails except under -E
    "c_gen":   ".c",   # error detected while generating code (after parsing): fails except under -E
    "c_asm":   ".c",   # the front end accepts it, but an asm statement carries text the assembler rejects:
                       # -E and -S succeed, under -c and in link mode the `as` step of this unit fails
    "c_nx":    ".c",   # does not exist
    "c_dir":   ".c",   # unreadable: a directory (we run as root, so permission bits do not bite)
    "s":       ".s",   # assembles
    "s_bad":   ".s",   # the assembler rejects it
    "s_nx":    ".s",   # does not exist
    "o":       ".o",   # links
    "o_bad":   ".o",   # references an undefined symbol: the linker rejects it
    "o_nx":    ".o",   # does not exist
}

C_KINDS = ("c", "c_pp", "c_parse", "c_gen", "c_asm", "c_nx", "c_dir")
S_KINDS = ("s", "s_bad", "s_nx")
O_KINDS = ("o", "o_bad", "o_nx")


def in_name(kind, slot):
    return "%s%d%s" % (kind.replace("_", ""), slot, KINDS[kind])


def base_of(name):
    return name.rsplit(".", 1)[0]


def sym(slot):
    return "vp_f%d" % slot


def c_source(kind, slot):
    body = "int %s(void){return %d;}\n" % (sym(slot), slot + 1)
    if slot == 0:
        body += "int main(void){return 0;}\n"
    if kind == "c":
        return body
    if kind == "c_pp":
        return body + "#error C14 deliberate preprocessing error\n"
    if kind == "c_parse":
        return body + "int vp_bad%d( { return }\n" % slot
    if kind == "c_gen":
        return body + "void vp_bad%d(void){ 1 = 2; }\n" % slot
    if kind == "c_asm":
        return body + 'void vp_bad%d(void){ asm("vp_not_an_instruction %%rax, %%rbx"); }\n' % slot
    raise KeyError(kind)


def s_source(kind, slot):
    t = ".text\n.globl %s\n%s:\n  mov $%d, %%eax\n  ret\n" % (sym(slot), sym(slot), slot + 1)
    if slot == 0:
        t += ".globl main\nmain:\n  xor %eax, %eax\n  ret\n"
    if kind == "o_bad":
        t += ".globl vp_caller%d\nvp_caller%d:\n  call vp_undefined_symbol\n  ret\n" % (slot, slot)
    if kind == "s_bad":
        t += "  this is not an instruction %%%\n"
    t += '.section .note.GNU-stack,"",@progbits\n'
    return t


def cc1_fails(kind, mode):
    if kind in ("c_pp", "c_nx", "c_dir"):
        return True
    if kind in ("c_parse", "c_gen"):
        return mode != "E"
    return False


class Shape:
    def __init__(self, mode, o, kinds, outloc):
        self.mode, self.o, self.kinds, self.outloc = mode, o, tuple(kinds), outloc
        self.inputs = [in_name(k, i) for i, k in enumerate(self.kinds)]
        self._derive()

    def key(self):
        return "%s|o=%s|%s|%s" % (self.mode, self.o or "absent", ",".join(self.kinds), self.outloc)

    # ------------------------------------------------------------------
    def _derive(self):
        mode, kinds = self.mode, self.kinds
        self.defined = True
        self.why_undefined = None
        if mode == "E" and any(k not in C_KINDS for k in kinds):
            self.defined, self.why_undefined = False, "-E with non-C inputs"
        if self.outloc != "w" and mode == "E" and not self.o:
            self.defined, self.why_undefined = False, "-E without -o writes to stdout: no output location"
        opath = None
        if self.o == "dash":
            # "-o -": standard output for -E and -S; what -c / link do with it is not defined by the property
            if mode in ("c", "link"):
                self.defined, self.why_undefined = False, "-o - with an object/executable output"
            if self.outloc != "w":
                self.defined, self.why_undefined = False, "-o - has no output location"
        elif self.o:
            opath = "nodir/out.x" if self.outloc == "unw" else "out.x"
        self.opath = opath
        self.to_stdout = mode in ("E", "S") and (self.o == "dash" or (mode == "E" and not self.o))

        # per-slot outputs and steps of the ideal pipeline
        self.tu_out = {}        # slot -> requested output path of that input (None: stdout / temporary)
        self.steps = []         # (step kind, slot or None)
        self.nat_fail = []      # (step kind, slot) steps that fail by themselves
        producing = 0
        for i, k in enumerate(kinds):
            name = self.inputs[i]
            if k in C_KINDS:
                self.steps.append(("cc1", i))
                if cc1_fails(k, mode):
                    self.nat_fail.append(("cc1", i))
                if mode == "E":
                    self.tu_out[i] = opath
                    producing += 1
                elif mode == "S":
                    self.tu_out[i] = None if self.o == "dash" else (opath or base_of(name) + ".s")
                    producing += 1
                elif mode == "c":
                    self.steps.append(("as", i))
                    if k == "c_asm":
                        self.nat_fail.append(("as", i))
                    self.tu_out[i] = opath or base_of(name) + ".o"
                    producing += 1
                else:
                    self.steps.append(("as", i))
                    if k == "c_asm":
                        self.nat_fail.append(("as", i))
                    self.tu_out[i] = None
            elif k in S_KINDS:
                if mode in ("c", "link"):
                    self.steps.append(("as", i))
                    if k != "s":
                        self.nat_fail.append(("as", i))
                    self.tu_out[i] = (opath or base_of(name) + ".o") if mode == "c" else None
                    if mode == "c":
                        producing += 1
            else:
                if mode == "link" and k != "o":
                    self.nat_fail.append(("ld", None))
        if mode == "link":
            self.steps.append(("ld", None))
            self.final = opath or "a.out"
        else:
            self.final = None

        # requested outputs on success
        outs = []
        for i in sorted(self.tu_out):
            if self.tu_out[i] and self.tu_out[i] not in outs:
                outs.append(self.tu_out[i])
        if self.final:
            outs.append(self.final)
        self.outputs = outs

        # must the command succeed?   True / False / None (the property does not say)
        ok = True
        if self.nat_fail:
            ok = False
        if self.outloc == "unw" and outs:
            ok = False
        # inputs a correct driver may either ignore or reject: status undefined
        for i, k in enumerate(kinds):
            ignored = (k in S_KINDS and mode == "S") or (k in O_KINDS and mode in ("S", "c"))
            if ignored and k not in ("s", "o") and ok:
                ok = None
        self.usage_conflict = bool(self.o) and mode != "link" and len(kinds) > 1
        if self.usage_conflict:
            # several inputs and one -o outside link mode: drivers reject this or not depending on how many of
            # the inputs produce output; the property does not say, so success is never required here.
            ok = None if ok else ok
        self.ok = ok

    # ------------------------------------------------------------------
    def argv(self):
        a = []
        if self.mode != "link":
            a.append("-" + self.mode)
        if self.o:
            a += ["-o", "-" if self.o == "dash" else self.opath]
        return a + list(self.inputs)

    def possible_outputs(self):
        """Every path the command could legitimately write (used for sentinel / unwritable set-up)."""
        return list(self.outputs)

    def failed_tu_outputs(self, faulted_slots=()):
        """Output paths that belong to a translation unit that fails to compile (by its nature or by an injected
        front-end fault).  In link mode the executable is the output of all its translation units."""
        res = set()
        for i, k in enumerate(self.kinds):
            if k in C_KINDS and (cc1_fails(k, self.mode) or i in faulted_slots):
                p = self.tu_out.get(i)
                if p:
                    res.add(p)
                if self.mode == "link":
                    res.add(self.final)
        return res

    def slot_of_input(self, path):
        import os
        b = os.path.basename(path)
        return self.inputs.index(b) if b in self.inputs else None


def enumerate_shapes(kinds_by_len, modes=("E", "S", "c", "link"), os_=(None, "file", "dash"), outlocs=("w", "sent", "unw")):
    """kinds_by_len: {length: [kind, ...]} - all lists of that length over that alphabet."""
    import itertools
    for mode in modes:
        for o in os_:
            for n in sorted(kinds_by_len):
                for kinds in itertools.product(kinds_by_len[n], repeat=n):
                    for outloc in outlocs:
                        yield Shape(mode, o, kinds, outloc)
