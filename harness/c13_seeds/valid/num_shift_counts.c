int g = 1 << 4;
long h = 1L << 40;
unsigned k = 1u << 31;
int f(int x, long y, unsigned u) { return (x << 3) + (y >> 40) + (u >> 31) + (1 << 30) + (int)(1L << 62); }
#if (1 << 3) != 8
#error shift
#endif
