int f(int x) { case 1: return x; }
