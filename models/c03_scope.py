"""C03 part (c): scope chains.  One name x is declared, per level of the chain

      0 file scope > 1 parameter > 2 function body block > 3 for-init > 4 compound body of the for

as an ordinary identifier (object / typedef name / enumeration constant), as a tag (struct / union / enum) and as a
label; every declaration gives x a distinct sizeof / value.  Probes after every scope entry and exit record what x
denotes there.  The model is the plain C11 6.2.1 rule: a use binds to the declaration in the innermost enclosing scope
that precedes it; ordinary identifiers, tags and labels are separate name spaces; parameter declarations and the
outermost block of the body are ONE scope (so a second declaration there is a constraint violation: not generated).
"""
import itertools

UNSET = -7777
NSITES = 9          # s0 file, s1 body entry, s2 after block decls, s3 for condition, s4a for body entry, s4 after inner decls,
                    # s3b for increment (after the body's scope ended), s5 after the for statement, s6 file scope after the function
SITE_NAMES = ["file", "body-entry", "after-block-decls", "for-cond", "for-body-entry", "after-inner-decls", "for-inc", "after-for", "file-after-function"]

# for-init: 6.8.5p3 allows only objects (gcc rejects tags, typedefs and enumerators declared there)
ORD = {0: (None, "obj", "typedef", "enumr"), 1: (None, "obj"), 2: (None, "obj", "typedef", "enumr"), 3: (None, "obj"),
       4: (None, "obj", "typedef", "enumr")}
TAG = {0: (None, "struct", "union", "enum"), 1: (None, "struct", "union", "enum"), 2: (None, "struct", "union", "enum"), 3: (None,),
       4: (None, "struct", "union", "enum")}
L3_OK = {(None, None), ("obj", None)}
LABELS = (None, "block", "inner")


def value(level, kind, case=None):
    """the observable of a declaration: sizeof for obj/typedef/struct/union, the constant for enumr, 4 for enum tags"""
    if kind == "obj":
        if level == 1: return 2                     # parameter: short x
        if level == 3 and case is not None and case.tag[3] is not None:      # for (struct x {..} x; ..): object of the tag's type
            return value(3, case.tag[3])
        return 10 + level
    if kind == "typedef": return 20 + level
    if kind == "enumr": return 30 + level
    if kind == "struct": return 40 + level
    if kind == "union": return 50 + level
    if kind == "enum": return 4
    raise ValueError(kind)


class Case:
    def __init__(self, ord_, tag, label):
        self.ord, self.tag, self.label = tuple(ord_), tuple(tag), label

    def cid(self):
        def f(v): return "-" if v is None else v
        return "ord=%s/tag=%s/label=%s" % (",".join(f(v) for v in self.ord), ",".join(f(v) for v in self.tag), f(self.label))

    def depth(self):
        return sum(1 for v in self.ord if v) + sum(1 for v in self.tag if v)

    def valid(self):
        if self.ord[1] and self.ord[2]: return False
        if self.tag[1] and self.tag[2]: return False
        return (self.ord[3], self.tag[3]) in L3_OK

    # ---- the model -------------------------------------------------------------
    def model(self):
        """expected probe values: list for jmp=0 and jmp=1 of NSITES*2 values (ord, tag); UNSET where nothing is recorded"""
        scopes = [[None, None]]          # innermost last; each scope: [ord binding, tag binding] = (level, kind)
        sites = {}

        def declare(level):
            if self.ord[level]: scopes[-1][0] = (level, self.ord[level])
            if self.tag[level]: scopes[-1][1] = (level, self.tag[level])

        def lookup(ns):
            for sc in reversed(scopes):
                if sc[ns] is not None:
                    return sc[ns]
            return None

        def probe(site):
            sites[site] = (lookup(0), lookup(1))

        declare(0); probe(0)
        scopes.append([None, None])      # parameters + outermost block of the body
        declare(1); probe(1)
        declare(2); probe(2)
        scopes.append([None, None])      # the for statement is a block (6.8.5p5)
        declare(3); probe(3)
        scopes.append([None, None])      # its body is a compound statement
        probe(4)
        declare(4); probe(5)
        scopes.pop()
        probe(6)
        scopes.pop()
        probe(7)
        scopes.pop()
        probe(8)
        self.bind = sites
        full = []
        for s in range(NSITES):
            for ns in (0, 1):
                b = sites[s][ns]
                full.append(UNSET if b is None else value(b[0], b[1], self))
        runs = [full]
        if self.label:
            # goto x from the top of the body: probes before the label are not executed (file-scope ones are constants)
            # label in 'block' sits after site 2; label in 'inner' sits after site 5 (end of the for body; the for
            # condition, site 3, is evaluated again after the increment)
            skip = {"block": (1, 2), "inner": (1, 2, 4, 5)}[self.label]
            j = list(full)
            for s in skip:
                j[2 * s] = j[2 * s + 1] = UNSET
            runs.append(j)
        else:
            runs.append([UNSET] * (2 * NSITES))
        return runs

    # ---- C text ------------------------------------------------------------------
    def source(self, i):
        X = "x%d" % i
        self.model()
        b = self.bind

        def decl(level):
            out = []
            t = self.tag[level]
            if t == "struct": out.append("struct %s { char c[%d]; };" % (X, value(level, t)))
            if t == "union": out.append("union %s { char c[%d]; };" % (X, value(level, t)))
            if t == "enum": out.append("enum %s { e%d_%d = %d };" % (X, level, i, 60 + level))
            o = self.ord[level]
            st = "static " if level == 0 else ""
            if o == "obj": out.append("%schar %s[%d];" % (st, X, value(level, o)))
            if o == "typedef": out.append("typedef char %s[%d];" % (X, value(level, o)))
            if o == "enumr": out.append("enum { %s = %d };" % (X, value(level, o)))
            return " ".join(out)

        def probes(site, sep=" "):
            out = []
            for ns in (0, 1):
                bd = b[site][ns]
                if bd is None:
                    continue
                k = bd[1]
                if k in ("obj", "typedef"): e = "sizeof(%s)" % X
                elif k == "enumr": e = X
                else: e = "sizeof(%s %s)" % (k, X)
                out.append("FN(out)[%d] = (long)%s" % (2 * site + ns, e))
            return out

        def pstmt(site):
            return " ".join(p + ";" for p in probes(site))

        def pexpr(site, last):
            ps = probes(site)
            return "(%s)" % ", ".join(ps + [last]) if ps else last

        lines = []
        d0 = decl(0)
        if d0: lines.append(d0)
        lines.append("static long pf%d[2] = {%s};" % (i, ", ".join(self._const(b[0][ns], X) for ns in (0, 1))))
        lines.append("static void g%d(void);" % i)        # defined after f: probes the file scope after the function's scopes ended
        pa = "short %s" % X if self.ord[1] else "short a"
        if self.tag[1]:
            body = "char c[%d];" % value(1, self.tag[1]) if self.tag[1] != "enum" else "e1_%d = 61" % i
            pb = "%s %s { %s } *p" % (self.tag[1], X, body)
        else:
            pb = "void *p"
        f = ["void FN(f%d)(%s, %s) {" % (i, pa, pb)]
        f.append("int k = 0; FN(out)[0] = pf%d[0]; FN(out)[1] = pf%d[1]; g%d();" % (i, i, i))
        if self.label:
            f.append("if (FN(jmp)) goto %s;" % X)
        f.append(pstmt(1))
        f.append(decl(2))
        f.append(pstmt(2))
        if self.label == "block":
            f.append("%s: ;" % X)
        # for-init declaration
        o3, t3 = self.ord[3], self.tag[3]
        if t3 in ("struct", "union"):
            spec = "%s %s { char c[%d]; }" % (t3, X, value(3, t3))
        elif t3 == "enum":
            spec = "enum %s { %s }" % (X, ("%s = %d" % (X, value(3, "enumr"))) if o3 == "enumr" else "e3_%d = 63" % i)
        elif o3 == "enumr":
            spec = "enum { %s = %d }" % (X, value(3, "enumr"))
        else:
            spec = "char"
        if o3 == "obj":
            init = "%s %s%s" % (spec, X, "[%d]" % value(3, "obj") if t3 is None else "")
        elif o3 is None and t3 is None:
            init = ""
        else:
            init = "%s v3" % spec
        f.append("for (%s; %s; %s) {" % (init, pexpr(3, "k < 1"), pexpr(6, "k++")))
        f.append(pstmt(4))
        f.append(decl(4))
        f.append(pstmt(5))
        if self.label == "inner":
            f.append("%s: ;" % X)
        f.append("}")
        f.append(pstmt(7))
        f.append("}")
        lines.append(" ".join(x for x in f if x))
        lines.append("static long pg%d[2] = {%s};" % (i, ", ".join(self._const(b[8][ns], X) for ns in (0, 1))))
        lines.append("static void g%d(void) { FN(out)[16] = pg%d[0]; FN(out)[17] = pg%d[1]; }" % (i, i, i))
        return "\n".join(lines) + "\n"

    def _const(self, bd, X):
        if bd is None: return str(UNSET)
        k = bd[1]
        if k in ("obj", "typedef"): return "sizeof(%s)" % X
        if k == "enumr": return X
        return "sizeof(%s %s)" % (k, X)

    def shrinks(self):
        out = []
        if self.label:
            out.append(Case(self.ord, self.tag, None))
        for l in range(5):
            if self.ord[l]:
                o = list(self.ord); o[l] = None
                out.append(Case(o, self.tag, self.label))
            if self.tag[l]:
                t = list(self.tag); t[l] = None
                out.append(Case(self.ord, t, self.label))
        return [c for c in out if c.valid()]


def decode(value_, case):
    """which declaration has this observable (for signatures)"""
    for l in range(5):
        for k in ("obj", "typedef", "enumr", "struct", "union"):
            if value(l, k, case) == value_ and (case.ord[l] == k or case.tag[l] == k):
                return "L%d.%s" % (l, k)
    if value_ == 4: return "enum-tag"
    if value_ == UNSET: return "not-executed"
    return "other"


def enum_cases(tier):
    out = []
    for o in itertools.product(*[ORD[l] for l in range(5)]):
        for t in itertools.product(*[TAG[l] for l in range(5)]):
            base = Case(o, t, None)
            if not base.valid():
                continue
            d = base.depth()
            if tier == "quick" and d > 3:
                continue
            for lab in LABELS:
                if tier == "quick" and lab and d > 2:
                    continue
                out.append(Case(o, t, lab))
    return out
