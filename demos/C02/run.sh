#!/bin/sh
# usage: demos/C02/run.sh <name>...
# Builds a scratch tree = /repo working tree + the pending proposed fixes that C02 needs to be clean (those that still
# apply; once they are committed in /repo they are skipped), applies demos/C02/<name>.diff on top, runs the repository's
# own tests (must pass) and then `./check C02 quick` against the mutated tree.  Baseline without a mutant: run.sh none
V=/verif
for name in "$@"; do
  d=$(mktemp -d /tmp/c02demo_XXXXXX)
  rsync -a --exclude=.git --exclude='*.o' --exclude=/chibicc --exclude=/stage2 --exclude='*.exe' --exclude='/tmp*' /repo/ "$d"/
  (cd "$d" && git init -q . 2>/dev/null)
  for f in $V/proposed_fixes/C20-discarded-long-double.diff $V/proposed_fixes/C02-*.diff; do
    [ -f "$f" ] && (cd "$d" && git apply "$f" 2>/dev/null)
  done
  rm -rf "$d/.git"
  if [ "$name" != none ]; then
    (cd "$d" && patch -p1 -s < $V/demos/C02/$name.diff) || { echo "MUTANT $name: patch does not apply"; rm -rf "$d"; continue; }
  fi
  rt=$($V/tools/repotest.sh "$d" | tail -1)
  out=$(cd $V && VERIF_REPO="$d" VERIF_NO_EVIDENCE=1 ./check C02 ${TIER:-quick} 2>&1); rc=$?
  echo "MUTANT $name: $rt; check C02 rc=$rc, $(echo "$out" | grep -c '^VIOLATION') violation lines"
  echo "$out" | grep '^VIOLATION' | head -2 | cut -c1-300
  [ $rc -ge 2 ] && echo "$out" | tail -5
  rm -rf "$d"
done
