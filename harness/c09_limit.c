// C09 launcher: runs one command under RLIMIT_AS / RLIMIT_CPU so that a macro expansion that never terminates
// (chibicc allocates without freeing: a runaway expansion eats memory at ~1 GB/s) is a verdict and cannot hurt the
// machine.  External observer only: nothing is injected into the compiler.
//
// usage: c09_limit <mem_mb> <cpu_s> -        prog args...   limits set, then exec (no extra process)
//        c09_limit <mem_mb> <cpu_s> <report> prog args...   fork + exec + wait4; writes one line
//              "E<exit code> <maxrss_kb>"  or  "S<signal> <maxrss_kb>"  to the file <report>; own exit code 0
//              (3 = the launcher itself failed)
#include <stdio.h>
#include <stdlib.h>
#include <string.h>
#include <signal.h>
#include <sys/prctl.h>
#include <sys/resource.h>
#include <sys/time.h>
#include <sys/types.h>
#include <sys/wait.h>
#include <unistd.h>

static void limits(long mem_mb, long cpu_s) {
  struct rlimit r;
  if (mem_mb > 0) {
    r.rlim_cur = r.rlim_max = (rlim_t)mem_mb << 20;
    setrlimit(RLIMIT_AS, &r);
  }
  if (cpu_s > 0) {
    r.rlim_cur = cpu_s;
    r.rlim_max = cpu_s + 1;
    setrlimit(RLIMIT_CPU, &r);
  }
  r.rlim_cur = r.rlim_max = 0;
  setrlimit(RLIMIT_CORE, &r);
}

int main(int argc, char **argv) {
  if (argc < 5) {
    fprintf(stderr, "usage: c09_limit <mem_mb> <cpu_s> <report|-> prog args...\n");
    return 3;
  }
  long mem_mb = atol(argv[1]), cpu_s = atol(argv[2]);
  char *report = argv[3];
  if (!strcmp(report, "-")) {
    limits(mem_mb, cpu_s);
    execv(argv[4], argv + 4);
    perror("c09_limit: execv");
    return 3;
  }
  pid_t pid = fork();
  if (pid < 0) {
    perror("c09_limit: fork");
    return 3;
  }
  if (pid == 0) {
    prctl(PR_SET_PDEATHSIG, SIGKILL);      // the observed process never outlives a killed launcher
    limits(mem_mb, cpu_s);
    execv(argv[4], argv + 4);
    perror("c09_limit: execv");
    _exit(127);
  }
  int status;
  struct rusage ru;
  if (wait4(pid, &status, 0, &ru) < 0) {
    perror("c09_limit: wait4");
    return 3;
  }
  FILE *f = fopen(report, "w");
  if (!f) {
    perror("c09_limit: report");
    return 3;
  }
  if (WIFSIGNALED(status))
    fprintf(f, "S%d %ld\n", WTERMSIG(status), ru.ru_maxrss);
  else
    fprintf(f, "E%d %ld\n", WEXITSTATUS(status), ru.ru_maxrss);
  fclose(f);
  return 0;
}
